//! Conversions between the oracle's plain data and the engine's types, observable snapshots.

use crate::oracle::*;
use chess::board::castle_rights_bitmask::*;
use chess::board::color::Color;
use chess::board::piece::Piece;
use chess::board::Board;
use chess::chess_move::capture::Capture;
use chess::chess_move::castle::CastleChessMove;
use chess::chess_move::chess_move::ChessMove;
use chess::chess_move::en_passant::EnPassantChessMove;
use chess::chess_move::pawn_promotion::PawnPromotionChessMove;
use chess::chess_move::standard::StandardChessMove;
use common::bitboard::bitboard::Bitboard;

pub fn bb(sq: u8) -> Bitboard {
    Bitboard(1u64 << sq)
}

pub fn sq_of_bb(b: Bitboard) -> u8 {
    b.0.trailing_zeros() as u8
}

pub fn to_piece(p: P) -> Piece {
    match p {
        P::Pawn => Piece::Pawn,
        P::Knight => Piece::Knight,
        P::Bishop => Piece::Bishop,
        P::Rook => Piece::Rook,
        P::Queen => Piece::Queen,
        P::King => Piece::King,
    }
}
pub fn from_piece(p: Piece) -> P {
    match p {
        Piece::Pawn => P::Pawn,
        Piece::Knight => P::Knight,
        Piece::Bishop => P::Bishop,
        Piece::Rook => P::Rook,
        Piece::Queen => P::Queen,
        Piece::King => P::King,
    }
}
pub fn to_color(s: Side) -> Color {
    match s {
        Side::White => Color::White,
        Side::Black => Color::Black,
    }
}
pub fn from_color(c: Color) -> Side {
    match c {
        Color::White => Side::White,
        Color::Black => Side::Black,
    }
}

pub fn rights_to_engine(r: u8) -> u8 {
    let mut e = 0;
    if r & WK != 0 {
        e |= WHITE_KINGSIDE_RIGHTS;
    }
    if r & WQ != 0 {
        e |= WHITE_QUEENSIDE_RIGHTS;
    }
    if r & BK != 0 {
        e |= BLACK_KINGSIDE_RIGHTS;
    }
    if r & BQ != 0 {
        e |= BLACK_QUEENSIDE_RIGHTS;
    }
    e
}
pub fn rights_from_engine(e: u8) -> u8 {
    let mut r = 0;
    if e & WHITE_KINGSIDE_RIGHTS != 0 {
        r |= WK;
    }
    if e & WHITE_QUEENSIDE_RIGHTS != 0 {
        r |= WQ;
    }
    if e & BLACK_KINGSIDE_RIGHTS != 0 {
        r |= BK;
    }
    if e & BLACK_QUEENSIDE_RIGHTS != 0 {
        r |= BQ;
    }
    r
}

/// Build an engine board from scratch through the public set-up API.
/// `order` optionally permutes the order in which pieces are put (for C05).
pub fn to_board_ordered(pos: &Pos, order: Option<&[u8]>) -> Board {
    let mut b = Board::new();
    let squares: Vec<u8> = match order {
        Some(o) => o.to_vec(),
        None => (0..64).collect(),
    };
    for s in squares {
        if let Some((p, c)) = pos.sq[s as usize] {
            b.put(bb(s), to_piece(p), to_color(c)).expect("put on empty board");
        }
    }
    b.set_turn(to_color(pos.side));
    b.lose_castle_rights(ALL_CASTLE_RIGHTS & !rights_to_engine(pos.rights));
    if let Some(t) = pos.ep {
        b.push_en_passant_target(bb(t));
    }
    if pos.half != 0 {
        b.push_halfmove_clock(pos.half.min(255) as u8);
    }
    b
}

pub fn to_board(pos: &Pos) -> Board {
    to_board_ordered(pos, None)
}

/// Read a position back from the engine board through public accessors.
pub fn from_board(b: &Board) -> Pos {
    let mut p = Pos::empty();
    for s in 0..64u8 {
        p.sq[s as usize] = b.get(bb(s)).map(|(pc, c)| (from_piece(pc), from_color(c)));
    }
    p.side = from_color(b.turn());
    p.rights = rights_from_engine(b.peek_castle_rights());
    let t = b.peek_en_passant_target();
    p.ep = if t.is_empty() { None } else { Some(sq_of_bb(t)) };
    p.half = b.halfmove_clock() as u32;
    p.ply = (b.fullmove_clock() as u32).saturating_sub(1);
    p
}

/// Every observable of the board.
#[derive(Clone, PartialEq, Eq, Debug)]
pub struct Snapshot {
    pub squares: Vec<Option<(P, Side)>>,
    pub piece_bb: [[u64; 6]; 2],
    pub occ: [u64; 2],
    pub occ_all: u64,
    pub turn: Side,
    pub rights: u8,
    pub ep: u64,
    pub half: u32,
    pub full: u64,
    pub hash: u64,
    pub max_seen: u32,
}

pub fn snapshot(b: &Board) -> Snapshot {
    let mut piece_bb = [[0u64; 6]; 2];
    let mut occ = [0u64; 2];
    for (ci, c) in [Color::White, Color::Black].iter().enumerate() {
        for (pi, p) in ALL_P.iter().enumerate() {
            piece_bb[ci][pi] = b.pieces(*c).locate(to_piece(*p)).0;
        }
        occ[ci] = b.pieces(*c).occupied().0;
    }
    Snapshot {
        squares: (0..64u8)
            .map(|s| b.get(bb(s)).map(|(pc, c)| (from_piece(pc), from_color(c))))
            .collect(),
        piece_bb,
        occ,
        occ_all: b.occupied().0,
        turn: from_color(b.turn()),
        rights: b.peek_castle_rights(),
        ep: b.peek_en_passant_target().0,
        half: b.halfmove_clock() as u32,
        full: b.fullmove_clock() as u64,
        hash: b.current_position_hash(),
        max_seen: b.max_seen_position_count() as u32,
    }
}

/// First difference between two snapshots, in words.
pub fn snapshot_diff(a: &Snapshot, b: &Snapshot) -> Option<String> {
    if a == b {
        return None;
    }
    for s in 0..64 {
        if a.squares[s] != b.squares[s] {
            return Some(format!(
                "square {}: {:?} vs {:?}",
                sq_name(s as u8),
                a.squares[s],
                b.squares[s]
            ));
        }
    }
    if a.piece_bb != b.piece_bb {
        return Some("per-piece bitboards differ".into());
    }
    if a.occ != b.occ || a.occ_all != b.occ_all {
        return Some("occupancy summaries differ".into());
    }
    if a.turn != b.turn {
        return Some(format!("turn {:?} vs {:?}", a.turn, b.turn));
    }
    if a.rights != b.rights {
        return Some(format!("rights {:04b} vs {:04b}", a.rights, b.rights));
    }
    if a.ep != b.ep {
        return Some(format!("ep {:#x} vs {:#x}", a.ep, b.ep));
    }
    if a.half != b.half {
        return Some(format!("halfmove {} vs {}", a.half, b.half));
    }
    if a.full != b.full {
        return Some(format!("move counter {} vs {}", a.full, b.full));
    }
    if a.hash != b.hash {
        return Some(format!("hash {:#018x} vs {:#018x}", a.hash, b.hash));
    }
    if a.max_seen != b.max_seen {
        return Some(format!("max_seen {} vs {}", a.max_seen, b.max_seen));
    }
    Some("snapshots differ".into())
}

pub fn mv_of(m: &ChessMove) -> Mv {
    let from = sq_of_bb(m.from_square());
    let to = sq_of_bb(m.to_square());
    let cap = m.captures().map(|c| from_piece(c.0));
    match m {
        ChessMove::Standard(_) => Mv {
            kind: Kind::Std,
            from,
            to,
            promo: None,
            cap,
        },
        ChessMove::PawnPromotion(pm) => Mv {
            kind: Kind::Promo,
            from,
            to,
            promo: Some(from_piece(pm.promote_to_piece())),
            cap,
        },
        ChessMove::EnPassant(_) => Mv {
            kind: Kind::Ep,
            from,
            to,
            promo: None,
            cap,
        },
        ChessMove::Castle(_) => Mv {
            kind: Kind::Castle,
            from,
            to,
            promo: None,
            cap,
        },
    }
}

/// Build an engine move from a semantic tuple through the public constructors.
pub fn chess_move_of(m: &Mv) -> ChessMove {
    let cap = m.cap.map(|p| Capture(to_piece(p)));
    match m.kind {
        Kind::Std => ChessMove::Standard(StandardChessMove::new(bb(m.from), bb(m.to), cap)),
        Kind::Promo => ChessMove::PawnPromotion(PawnPromotionChessMove::new(
            bb(m.from),
            bb(m.to),
            cap,
            to_piece(m.promo.unwrap()),
        )),
        Kind::Ep => ChessMove::EnPassant(EnPassantChessMove::new(bb(m.from), bb(m.to))),
        Kind::Castle => {
            let color = if m.from == E1 { Color::White } else { Color::Black };
            if m.to > m.from {
                ChessMove::Castle(CastleChessMove::castle_kingside(color))
            } else {
                ChessMove::Castle(CastleChessMove::castle_queenside(color))
            }
        }
    }
}

pub fn mv_text(m: &Mv) -> String {
    let k = match m.kind {
        Kind::Std => "",
        Kind::Promo => "=",
        Kind::Ep => "ep",
        Kind::Castle => "castle",
    };
    format!(
        "{}{}{}{}",
        crate::oracle::notation::uci(m),
        if k.is_empty() { "" } else { ":" },
        k,
        m.cap.map(|c| format!("x{:?}", c)).unwrap_or_default()
    )
}

pub fn mvs_text(ms: &[Mv]) -> String {
    ms.iter().map(mv_text).collect::<Vec<_>>().join(" ")
}
