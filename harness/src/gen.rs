//! proptest strategies. Every random choice is made by proptest; a generated position is plain
//! data passed through a constructive repair (`build`), so shrinking stays inside the domain.

use crate::oracle::*;
use proptest::prelude::*;
use serde::{Deserialize, Serialize};

#[derive(Clone, Debug, Serialize, Deserialize)]
pub struct RawPos {
    pub wk: u8,
    pub bk: u8,
    /// (square, piece 0..4 = P N B R Q, white?)
    pub items: Vec<(u8, u8, bool)>,
    pub white_to_move: bool,
    pub rights: u8,
    pub ep_file: Option<u8>,
    pub half: u8,
}

fn piece_of(i: u8) -> P {
    match i % 5 {
        0 => P::Pawn,
        1 => P::Knight,
        2 => P::Bishop,
        3 => P::Rook,
        _ => P::Queen,
    }
}

fn adjacent(a: u8, b: u8) -> bool {
    (file_of(a) - file_of(b)).abs() <= 1 && (rank_of(a) - rank_of(b)).abs() <= 1
}

/// Constructive repair: always returns a consistent position.
pub fn build(raw: &RawPos) -> Pos {
    let mut p = Pos::empty();
    let wk = raw.wk % 64;
    let mut bk = raw.bk % 64;
    let mut guard = 0;
    while (bk == wk || adjacent(wk, bk)) && guard < 64 {
        bk = (bk + 9) % 64;
        guard += 1;
    }
    p.sq[wk as usize] = Some((P::King, Side::White));
    p.sq[bk as usize] = Some((P::King, Side::Black));
    for &(s, pi, w) in &raw.items {
        let s = s % 64;
        if p.sq[s as usize].is_some() {
            continue;
        }
        let pc = piece_of(pi);
        if pc == P::Pawn && (rank_of(s) == 0 || rank_of(s) == 7) {
            continue;
        }
        p.sq[s as usize] = Some((pc, if w { Side::White } else { Side::Black }));
    }
    p.side = if raw.white_to_move { Side::White } else { Side::Black };
    // the side not to move must not be in check: remove the offending attackers
    let idle = p.side.other();
    let mut rounds = 0;
    while p.in_check(idle) && rounds < 32 {
        let k = p.king_sq(idle).unwrap();
        for s in 0..64u8 {
            if let Some((pc, c)) = p.sq[s as usize] {
                if c == p.side && pc != P::King && p.piece_attacks(s, pc, c, k) {
                    p.sq[s as usize] = None;
                }
            }
        }
        rounds += 1;
    }
    // rights: only those supported by king and rook on their home squares
    let mut rights = raw.rights & 0b1111;
    for (bit, k, r, c) in [
        (WK, E1, H1, Side::White),
        (WQ, E1, A1, Side::White),
        (BK, E8, H8, Side::Black),
        (BQ, E8, A8, Side::Black),
    ] {
        if p.sq[k as usize] != Some((P::King, c)) || p.sq[r as usize] != Some((P::Rook, c)) {
            rights &= !bit;
        }
    }
    p.rights = rights;
    // en passant: only if consistent with a double step just made
    if let Some(f) = raw.ep_file {
        let f = (f % 8) as i8;
        let mover = p.side.other();
        let (trank, prank, orank) = if mover == Side::White { (2, 3, 1) } else { (5, 4, 6) };
        let t = sq_of(f, trank).unwrap();
        if p.sq[t as usize].is_none()
            && p.sq[sq_of(f, orank).unwrap() as usize].is_none()
            && p.sq[sq_of(f, prank).unwrap() as usize] == Some((P::Pawn, mover))
        {
            p.ep = Some(t);
        }
    }
    // a double step has just been made when a target is set, so the clock is 0
    p.half = if p.ep.is_some() { 0 } else { raw.half as u32 };
    debug_assert!(p.consistent().is_ok(), "{:?} {}", p.consistent(), p.fen());
    p
}

fn item() -> impl Strategy<Value = (u8, u8, bool)> {
    (0u8..64, 0u8..5, any::<bool>())
}

/// Piece index weighted towards what matters: 0 pawn .. 4 queen.
fn weighted_item(weights: [u32; 5]) -> impl Strategy<Value = (u8, u8, bool)> {
    (
        0u8..64,
        prop_oneof![
            weights[0] => Just(0u8),
            weights[1] => Just(1u8),
            weights[2] => Just(2u8),
            weights[3] => Just(3u8),
            weights[4] => Just(4u8),
        ],
        any::<bool>(),
    )
}

/// Uniform placement of `n` extra men.
pub fn placement(max_items: usize) -> impl Strategy<Value = RawPos> {
    (
        0u8..64,
        0u8..64,
        prop::collection::vec(item(), 0..=max_items),
        any::<bool>(),
        0u8..16,
        prop::option::weighted(0.3, 0u8..8),
        0u8..40,
    )
        .prop_map(|(wk, bk, items, white_to_move, rights, ep_file, half)| RawPos {
            wk,
            bk,
            items,
            white_to_move,
            rights,
            ep_file,
            half,
        })
}

/// Pawn-heavy placement with pawns steered onto the ranks where double steps, en passant and
/// promotions happen.
pub fn pawn_placement() -> impl Strategy<Value = RawPos> {
    (
        0u8..64,
        0u8..64,
        prop::collection::vec((0u8..8, 0u8..6, any::<bool>()), 2..12),
        prop::collection::vec(item(), 0..10),
        any::<bool>(),
        0u8..16,
        prop::option::weighted(0.8, 0u8..8),
    )
        .prop_map(|(wk, bk, pawns, extra, white_to_move, rights, ep_file)| {
            let mut items: Vec<(u8, u8, bool)> = pawns
                .into_iter()
                .map(|(f, ri, w)| {
                    // ranks 2,7,4,5,3,6 (index 1,6,3,4,2,5)
                    let r = [1u8, 6, 3, 4, 2, 5][ri as usize];
                    (r * 8 + f, 0u8, w)
                })
                .collect();
            items.extend(extra);
            RawPos {
                wk,
                bk,
                items,
                white_to_move,
                rights,
                ep_file,
                half: 0,
            }
        })
}

/// Squares from which a piece of type `pi` (1..4, or 0 = pawn of colour `white`, 5 = king)
/// would attack `target` on an otherwise empty board.
pub fn attack_origins(pi: u8, white: bool, target: u8) -> Vec<u8> {
    let mut e = Pos::empty();
    let (p, c) = (
        match pi {
            0 => P::Pawn,
            1 => P::Knight,
            2 => P::Bishop,
            3 => P::Rook,
            4 => P::Queen,
            _ => P::King,
        },
        if white { Side::White } else { Side::Black },
    );
    let mut v = Vec::new();
    for s in 0..64u8 {
        if s == target {
            continue;
        }
        if p == P::Pawn && (rank_of(s) == 0 || rank_of(s) == 7) {
            continue;
        }
        e.sq[s as usize] = Some((p, c));
        if e.piece_attacks(s, p, c, target) {
            v.push(s);
        }
        e.sq[s as usize] = None;
    }
    v
}

fn pick<T: Copy>(v: &[T], sel: u16) -> Option<T> {
    if v.is_empty() {
        None
    } else {
        Some(v[(sel as usize * v.len()) >> 16])
    }
}

/// King and rooks at home with all rights, an enemy piece aimed at one of the squares that
/// matter for castling (king square, transit, target, b-file), plus random extras.
pub fn castle_theme() -> impl Strategy<Value = RawPos> {
    (
        any::<bool>(),                                  // which side castles (and is to move)
        0u8..6,                                         // which square is aimed at
        0u8..6,                                         // attacker type (5 = none)
        any::<u16>(),                                   // attacker origin selector
        prop::collection::vec(item(), 0..8),            // extras
        0u8..64,                                        // enemy king
        any::<bool>(),                                  // both sides set up at home
        0u8..16,                                        // rights mask to keep
        // 0 none; 1/2: an enemy pawn on the 7th next to the a-/h-rook (it can take the rook
        // and promote); 3..: the enemy has just made a double step on file (x - 3)
        0u8..11,
    )
        .prop_map(|(white, aim, at, sel, extras, ek, both, keep, pawn)| {
            let base: u8 = if white { 0 } else { 56 };
            let mut items = vec![(base, 3u8, white), (base + 7, 3u8, white)];
            let targets = [base + 4, base + 5, base + 6, base + 3, base + 2, base + 1];
            let target = targets[aim as usize];
            if at < 5 {
                let origins: Vec<u8> = attack_origins(at, !white, target)
                    .into_iter()
                    .filter(|s| rank_of(*s) != rank_of(base) || at == 3 || at == 4)
                    .collect();
                if let Some(o) = pick(&origins, sel) {
                    items.push((o, at, !white));
                }
            }
            let (wk, bk) = if white { (4u8, ek) } else { (ek, 60u8) };
            let (wk, bk) = if both { (4u8, 60u8) } else { (wk, bk) };
            if both {
                let ob: u8 = if white { 56 } else { 0 };
                items.push((ob, 3, !white));
                items.push((ob + 7, 3, !white));
            }
            let mut ep_file = None;
            match pawn {
                1 | 2 => {
                    // enemy pawn one step from promotion, diagonally in front of a corner rook;
                    // the enemy is to move in half of the cases (see white_to_move below)
                    let f: u8 = if pawn == 1 { 1 } else { 6 };
                    let r: u8 = if white { 1 } else { 6 };
                    items.push((r * 8 + f, 0, !white));
                }
                3..=10 => {
                    let f = pawn - 3;
                    let r: u8 = if white { 4 } else { 3 };
                    items.push((r * 8 + f, 0, !white));
                    ep_file = Some(f);
                }
                _ => {}
            }
            items.extend(extras);
            // with a promoting enemy pawn the enemy moves first in half of the cases
            let mover_white = if (pawn == 1 || pawn == 2) && sel & 1 == 1 { !white } else { white };
            RawPos {
                wk,
                bk,
                items,
                white_to_move: mover_white,
                rights: if keep == 0 { 15 } else { keep | if white { WK | WQ } else { BK | BQ } },
                ep_file,
                half: 0,
            }
        })
}

/// A double step has just been made next to an enemy pawn; the capturer's king and an enemy
/// slider are arranged on the rank / diagonal / file that the capture would open.
pub fn ep_theme() -> BoxedStrategy<RawPos> {
    ep_theme_arr((0u8..9).boxed())
}

/// The en-passant theme with a chosen distribution of arrangements (see the match below).
pub fn ep_theme_arr(arrangement: BoxedStrategy<u8>) -> BoxedStrategy<RawPos> {
    (
        any::<bool>(),                        // white is the capturer (to move)
        0u8..8,                               // file of the double-stepped pawn
        0u8..3,                               // capturers: 0 left, 1 right, 2 both
        arrangement,                          // arrangement
        any::<u16>(),                         // king selector
        any::<u16>(),                         // slider selector
        0u8..64,                              // other king
        prop::collection::vec(item(), 0..6),  // extras
        any::<u8>(),                          // arrangement 5: own men boxing the checked king in
    )
        .prop_map(|(white, f, caps, arr, ksel, ssel, ok, extras, box_mask)| {
            let f = f as i8;
            let r: i8 = if white { 4 } else { 3 }; // rank index both pawns stand on
            let victim = sq_of(f, r).unwrap();
            let mut items = vec![(victim, 0u8, !white)];
            let mut capturers = Vec::new();
            if caps != 1 {
                if let Some(s) = sq_of(f - 1, r) {
                    capturers.push(s);
                }
            }
            if caps != 0 {
                if let Some(s) = sq_of(f + 1, r) {
                    capturers.push(s);
                }
            }
            if capturers.is_empty() {
                capturers.push(sq_of(if f == 0 { 1 } else { f - 1 }, r).unwrap());
            }
            for &c in &capturers {
                items.push((c, 0u8, white));
            }
            let occupied: Vec<u8> = items.iter().map(|x| x.0).collect();
            let free = |s: &u8| !occupied.contains(s);
            let mut king = None;
            let mut slider: Option<(u8, u8)> = None;
            let mut enemy_king: Option<u8> = None;
            let mut own_slider: Option<(u8, u8)> = None;
            let mut boxed: Vec<(u8, u8, bool)> = Vec::new();
            match arr {
                1 => {
                    // same rank: king on one side, rook/queen on the other
                    let row: Vec<u8> = (0..8).filter_map(|x| sq_of(x, r)).filter(free).collect();
                    let k = pick(&row, ksel);
                    let s = pick(&row, ssel);
                    if let (Some(k), Some(s)) = (k, s) {
                        if k != s {
                            king = Some(k);
                            slider = Some((s, if ssel & 1 == 0 { 3 } else { 4 }));
                        }
                    }
                }
                2 | 3 => {
                    // diagonal through the victim (2) or through a capturer (3)
                    let through = if arr == 2 { victim } else { capturers[0] };
                    let diag: Vec<u8> = attack_origins(2, true, through).into_iter().filter(free).collect();
                    let k = pick(&diag, ksel);
                    if let Some(k) = k {
                        // slider on the opposite side of `through`
                        let df = (file_of(through) - file_of(k)).signum();
                        let dr = (rank_of(through) - rank_of(k)).signum();
                        let mut opp = Vec::new();
                        let (mut cf, mut cr) = (file_of(through) + df, rank_of(through) + dr);
                        while let Some(s) = sq_of(cf, cr) {
                            if free(&s) {
                                opp.push(s);
                            }
                            cf += df;
                            cr += dr;
                        }
                        if let Some(s) = pick(&opp, ssel) {
                            king = Some(k);
                            slider = Some((s, if ssel & 1 == 0 { 2 } else { 4 }));
                        }
                    }
                }
                4 => {
                    // file through a capturer: capturing leaves the file
                    let through = capturers[0];
                    let col: Vec<u8> = (0..8).filter_map(|y| sq_of(file_of(through), y)).filter(free).collect();
                    let k = pick(&col, ksel);
                    let s = pick(&col, ssel);
                    if let (Some(k), Some(s)) = (k, s) {
                        if (k < through) != (s < through) {
                            king = Some(k);
                            slider = Some((s, if ssel & 1 == 0 { 3 } else { 4 }));
                        }
                    }
                }
                6 | 7 | 8 => {
                    // the capture DISCOVERS an attack on the enemy king: enemy king and an own
                    // slider on a line through the captured pawn (6: diagonal), through both
                    // pawns (7: rank) or through the capturer's origin (8: diagonal)
                    let through = if arr == 8 { capturers[0] } else { victim };
                    let line: Vec<u8> = if arr == 7 {
                        (0..8).filter_map(|x| sq_of(x, r)).filter(free).collect()
                    } else {
                        attack_origins(2, true, through).into_iter().filter(free).collect()
                    };
                    if let Some(k) = pick(&line, ksel) {
                        let df = (file_of(through) - file_of(k)).signum();
                        let dr = (rank_of(through) - rank_of(k)).signum();
                        let mut opp = Vec::new();
                        let (mut cf, mut cr) = (file_of(through) + df, rank_of(through) + dr);
                        while let Some(s) = sq_of(cf, cr) {
                            if free(&s) {
                                opp.push(s);
                            }
                            cf += df;
                            cr += dr;
                        }
                        if let Some(s) = pick(&opp, ssel) {
                            enemy_king = Some(k);
                            let t = if arr == 7 { if ssel & 1 == 0 { 3 } else { 4 } } else if ssel & 1 == 0 { 2 } else { 4 };
                            own_slider = Some((s, t));
                        }
                    }
                }
                5 => {
                    // the double-stepped pawn gives check: capturing it e.p. is a way out
                    let fwd: i8 = if white { -1 } else { 1 };
                    let cands: Vec<u8> = [-1i8, 1]
                        .iter()
                        .filter_map(|d| sq_of(f + d, r + fwd))
                        .filter(free)
                        .collect();
                    king = pick(&cands, ksel);
                    // box the king in with its own men so that few replies remain
                    if let Some(k) = king {
                        let nb: [(i8, i8); 8] = [(1, 0), (1, 1), (0, 1), (-1, 1), (-1, 0), (-1, -1), (0, -1), (1, -1)];
                        for (i, (df, dr)) in nb.iter().enumerate() {
                            if box_mask >> i & 1 == 1 {
                                if let Some(s) = sq_of(file_of(k) + df, rank_of(k) + dr) {
                                    if free(&s) && rank_of(s) != 0 && rank_of(s) != 7 {
                                        boxed.push((s, if i % 2 == 0 { 0u8 } else { 1u8 }, white));
                                    }
                                }
                            }
                        }
                    }
                }
                _ => {}
            }
            if let Some((s, t)) = slider {
                items.push((s, t, !white));
            }
            if let Some((s, t)) = own_slider {
                items.push((s, t, white));
            }
            items.extend(boxed);
            let king = king.unwrap_or_else(|| (ksel % 64) as u8);
            let ok = enemy_king.unwrap_or(ok);
            let (wk, bk) = if white { (king, ok) } else { (ok, king) };
            items.extend(extras);
            RawPos {
                wk,
                bk,
                items,
                white_to_move: white,
                rights: 0,
                ep_file: Some(f as u8),
                half: 0,
            }
        })
        .boxed()
}

/// Seven to nine like pieces (knights, bishops, rooks or queens) of one side plus pawns of that
/// side on the seventh: promoting adds a ninth / tenth piece of the kind (legal material).
pub fn crowded_promo() -> impl Strategy<Value = RawPos> {
    (
        any::<bool>(),
        1u8..5,
        7usize..10,
        prop::collection::vec(0u8..64, 9),
        prop::collection::vec(0u8..8, 1..3),
        0u8..64,
        0u8..64,
        prop::collection::vec(item(), 0..3),
    )
        .prop_map(|(white, kind, n, squares, pawn_files, wk, bk, extras)| {
            let mut items = Vec::new();
            let r7: u8 = if white { 6 } else { 1 };
            for f in &pawn_files {
                items.push((r7 * 8 + f, 0u8, white));
            }
            for s in squares.iter().take(n) {
                items.push((*s, kind, white));
            }
            items.extend(extras);
            RawPos {
                wk,
                bk,
                items,
                white_to_move: white,
                rights: 0,
                ep_file: None,
                half: 0,
            }
        })
}

/// The position one ply BEFORE an en-passant set-up: the double step is still to be played
/// (so its annotation - check, mate, or neither - and its label are exercised).
pub fn pre_double_step() -> impl Strategy<Value = String> {
    // two thirds: the double step will give check to a boxed-in king (arrangement 5)
    ep_theme_arr(prop_oneof![1 => 0u8..9, 2 => Just(5u8)].boxed()).prop_map(|r| {
        let p = build(&r);
        if let Some(t) = p.ep {
            let mover = p.side.other();
            let (from, to) = if mover == Side::White { (t - 8, t + 8) } else { (t + 8, t - 8) };
            let mut q = p.clone();
            q.sq[from as usize] = q.sq[to as usize].take();
            q.side = mover;
            q.ep = None;
            if q.consistent().is_ok() {
                return q.fen();
            }
        }
        p.fen()
    })
}

/// Pawns on the seventh with capturable pieces on the eighth, mover possibly in check.
pub fn promo_theme() -> impl Strategy<Value = RawPos> {
    (
        any::<bool>(),
        prop::collection::vec((0u8..8, any::<bool>()), 1..4), // pawn files, "has enemy piece in front"
        prop::collection::vec((0u8..8, 1u8..5), 0..5),        // enemy pieces on the last rank
        0u8..64,
        0u8..64,
        prop::collection::vec(item(), 0..6),
        0u8..16,
    )
        .prop_map(|(white, pawns, backrank, wk, bk, extras, rights)| {
            let (r7, r8): (u8, u8) = if white { (6, 7) } else { (1, 0) };
            let mut items = Vec::new();
            for (f, _) in &pawns {
                items.push((r7 * 8 + f, 0u8, white));
            }
            for (f, t) in backrank {
                items.push((r8 * 8 + f, t, !white));
            }
            items.extend(extras);
            RawPos {
                wk,
                bk,
                items,
                white_to_move: white,
                rights,
                ep_file: None,
                half: 0,
            }
        })
}

/// The mover's king with an own piece on one of its rays and an enemy slider behind it (pin),
/// and/or direct checkers (single and double check).
pub fn pin_check_theme() -> impl Strategy<Value = RawPos> {
    (
        any::<bool>(),
        0u8..64,                                                    // mover's king
        prop::collection::vec((0u8..8, 1u8..6, 0u8..5, 1u8..6), 1..4), // (direction, dist to own piece, own piece type, dist beyond)
        prop::collection::vec((0u8..5, any::<u16>()), 0..3),         // direct checkers incl. pawns (type, origin selector)
        0u8..64,
        prop::collection::vec(item(), 0..8),
        prop::option::weighted(0.2, 0u8..8),
    )
        .prop_map(|(white, k, pins, checkers, ok, extras, ep_file)| {
            let dirs: [(i8, i8); 8] = [(1, 0), (1, 1), (0, 1), (-1, 1), (-1, 0), (-1, -1), (0, -1), (1, -1)];
            let mut items = Vec::new();
            for (d, d1, own, d2) in pins {
                let (df, dr) = dirs[d as usize];
                let a = sq_of(file_of(k) + df * d1 as i8, rank_of(k) + dr * d1 as i8);
                let b = sq_of(
                    file_of(k) + df * (d1 + d2) as i8,
                    rank_of(k) + dr * (d1 + d2) as i8,
                );
                if let (Some(a), Some(b)) = (a, b) {
                    items.push((a, own, white));
                    let straight = df == 0 || dr == 0;
                    items.push((b, if (a + b) % 3 == 0 { 4 } else if straight { 3 } else { 2 }, !white));
                }
            }
            for (t, sel) in checkers {
                if let Some(o) = pick(&attack_origins(t, !white, k), sel) {
                    items.push((o, t, !white));
                }
            }
            items.extend(extras);
            let (wk, bk) = if white { (k, ok) } else { (ok, k) };
            RawPos {
                wk,
                bk,
                items,
                white_to_move: white,
                rights: 0,
                ep_file,
                half: 0,
            }
        })
}

/// A king on or near the edge with heavy enemy pieces close by: mates, stalemates, mates in one.
pub fn cage_theme() -> impl Strategy<Value = RawPos> {
    (
        any::<bool>(),                 // side to move is the caged one
        any::<bool>(),                 // caged king is white
        0u8..28,                       // edge square index
        prop::collection::vec((-2i8..=2, -2i8..=2, 0u8..5), 1..4), // attackers near the king (incl. pawns)
        (-3i8..=3, -3i8..=3),          // attacking king offset
        prop::collection::vec((-1i8..=1, -1i8..=1, 0u8..4), 0..3), // own blockers around the king
        prop::collection::vec(item(), 0..3),
    )
        .prop_map(|(caged_to_move, caged_white, e, attackers, (kf, kr), blockers, extras)| {
            // enumerate the 28 edge squares
            let edge: Vec<u8> = (0..64u8)
                .filter(|s| file_of(*s) == 0 || file_of(*s) == 7 || rank_of(*s) == 0 || rank_of(*s) == 7)
                .collect();
            let k = edge[e as usize % edge.len()];
            let mut items = Vec::new();
            for (df, dr, t) in attackers {
                if let Some(s) = sq_of(file_of(k) + df, rank_of(k) + dr) {
                    items.push((s, t, !caged_white));
                }
            }
            for (df, dr, t) in blockers {
                if let Some(s) = sq_of(file_of(k) + df, rank_of(k) + dr) {
                    items.push((s, t, caged_white));
                }
            }
            let ok = sq_of(
                (file_of(k) + kf).clamp(0, 7),
                (rank_of(k) + kr).clamp(0, 7),
            )
            .unwrap();
            items.extend(extras);
            let (wk, bk) = if caged_white { (k, ok) } else { (ok, k) };
            RawPos {
                wk,
                bk,
                items,
                white_to_move: caged_to_move == caged_white,
                rights: 0,
                ep_file: None,
                half: 0,
            }
        })
}

/// Two to four like pieces that can all reach one square (notation ambiguity).
pub fn ambiguity_theme() -> impl Strategy<Value = RawPos> {
    (
        any::<bool>(),
        0u8..64,
        1u8..5,
        prop::collection::vec(any::<u16>(), 2..5),
        prop::option::weighted(0.4, 1u8..5), // an enemy piece on the target (capture)
        0u8..64,
        0u8..64,
        prop::collection::vec(weighted_item([1, 3, 2, 3, 3]), 0..6),
    )
        .prop_map(|(white, target, t, sels, victim, wk, bk, extras)| {
            let origins = attack_origins(t, white, target);
            let mut items = Vec::new();
            if let Some(v) = victim {
                items.push((target, v, !white));
            }
            for sel in sels {
                if let Some(o) = pick(&origins, sel) {
                    items.push((o, t, white));
                }
            }
            items.extend(extras);
            RawPos {
                wk,
                bk,
                items,
                white_to_move: white,
                rights: 0,
                ep_file: None,
                half: 0,
            }
        })
}

/// Few-piece endgames (2..=max_men men) - small trees, many transpositions.
pub fn endgame(max_extra: usize) -> impl Strategy<Value = RawPos> {
    (
        0u8..64,
        0u8..64,
        prop::collection::vec(weighted_item([3, 2, 2, 4, 3]), 1..=max_extra),
        any::<bool>(),
    )
        .prop_map(|(wk, bk, items, white_to_move)| RawPos {
            wk,
            bk,
            items,
            white_to_move,
            rights: 0,
            ep_file: None,
            half: 0,
        })
}

/// Tiny endgames with far-advanced pawns: promotions inside a short horizon make sibling
/// lines differ by large amounts.
pub fn pawn_race() -> impl Strategy<Value = RawPos> {
    (
        0u8..64,
        0u8..64,
        prop::collection::vec((0u8..8, 0u8..3, any::<bool>()), 1..3),
        prop::collection::vec(weighted_item([0, 2, 2, 3, 1]), 0..2),
        any::<bool>(),
    )
        .prop_map(|(wk, bk, pawns, extra, white_to_move)| {
            let mut items: Vec<(u8, u8, bool)> = pawns
                .into_iter()
                .map(|(f, adv, w)| {
                    // white pawns on ranks 7/6/5, black pawns on ranks 2/3/4
                    let r = if w { 6 - adv } else { 1 + adv };
                    (r * 8 + f, 0u8, w)
                })
                .collect();
            items.extend(extra);
            RawPos {
                wk,
                bk,
                items,
                white_to_move,
                rights: 0,
                ep_file: None,
                half: 0,
            }
        })
}

/// Material-extreme set-ups: many queens / rooks / minor pieces (promoted), bare kings.
pub fn material_extreme() -> impl Strategy<Value = RawPos> {
    (
        0u8..64,
        0u8..64,
        prop::collection::vec(weighted_item([1, 2, 2, 3, 8]), 0..30),
        any::<bool>(),
    )
        .prop_map(|(wk, bk, items, white_to_move)| {
            // legal material: at most 16 men a side, pawns + promoted pieces <= 8
            let mut kept = Vec::new();
            let mut men = [1usize; 2];
            let mut budget = [8i32; 2]; // pawns + pieces beyond the original set
            let mut have = [[0i32; 5]; 2];
            let base = [8, 2, 2, 2, 1];
            for (s, t, w) in items {
                let ci = w as usize;
                let ti = (t % 5) as usize;
                if men[ci] >= 16 {
                    continue;
                }
                let extra = ti == 0 || have[ci][ti] >= base[ti];
                if extra {
                    if budget[ci] == 0 {
                        continue;
                    }
                    budget[ci] -= 1;
                }
                have[ci][ti] += 1;
                men[ci] += 1;
                kept.push((s, t, w));
            }
            RawPos {
                wk,
                bk,
                items: kept,
                white_to_move,
                rights: 0,
                ep_file: None,
                half: 0,
            }
        })
}

/// Seed position followed by a random legal walk (selectors map monotonically onto the sorted
/// legal-move list).
#[derive(Clone, Debug, Serialize, Deserialize)]
pub struct Walk {
    pub fen: String,
    pub sels: Vec<u16>,
}

pub fn select<T: Clone>(v: &[T], sel: u16) -> T {
    v[(sel as usize * v.len()) >> 16].clone()
}

/// Follow the walk with the oracle; stops early at terminal positions. Returns all positions
/// visited (including the seed) and the moves made.
pub fn realize_walk(w: &Walk) -> (Vec<Pos>, Vec<Mv>) {
    let mut p = Pos::from_fen(&w.fen).expect("walk seed fen");
    let mut ps = vec![p.clone()];
    let mut ms = Vec::new();
    for &s in &w.sels {
        let legal = p.legal_moves();
        if legal.is_empty() {
            break;
        }
        let m = select(&legal, s);
        p = p.make(&m);
        ps.push(p.clone());
        ms.push(m);
    }
    (ps, ms)
}

pub fn walk_end(w: &Walk) -> Pos {
    realize_walk(w).0.pop().unwrap()
}

/// Greedy walk towards a terminal position: at every ply play the move that leaves the
/// opponent the fewest legal replies (ties broken by the selector). Ends early on mate/stalemate.
pub fn seek_terminal(start: &Pos, sels: &[u16]) -> Pos {
    let mut p = start.clone();
    for s in sels {
        let legal = p.legal_moves();
        if legal.is_empty() {
            break;
        }
        let mut best: Vec<Mv> = Vec::new();
        let mut best_n = usize::MAX;
        for m in &legal {
            let n = p.make(m).legal_moves().len();
            if n < best_n {
                best_n = n;
                best.clear();
            }
            if n == best_n {
                best.push(*m);
            }
        }
        let m = select(&best, *s);
        p = p.make(&m);
    }
    p
}

/// One ply before the end of a greedy terminal-seeking walk: if the walk ended in mate or
/// stalemate, the position returned has a mating / stalemating move available.
pub fn pre_terminal() -> BoxedStrategy<String> {
    (
        prop_oneof![
            3 => cage_theme().prop_map(|r| build(&r)),
            2 => endgame(3).prop_map(|r| build(&r)),
            1 => placement(8).prop_map(|r| build(&r)),
        ],
        prop::collection::vec(any::<u16>(), 1..7),
    )
        .prop_map(|(p, sels)| {
            let mut prev = p.clone();
            let mut cur = p;
            for i in 0..sels.len() {
                if cur.legal_moves().is_empty() {
                    break;
                }
                let next = seek_terminal(&cur, &sels[i..i + 1]);
                prev = cur;
                cur = next;
            }
            let mut q = if cur.legal_moves().is_empty() { prev } else { cur };
            q.half = 0;
            q.fen()
        })
        .boxed()
}

/// A king in a corner hemmed in by its own men, and a lone enemy knight or bishop (plus king)
/// that can deliver, or has just delivered, the smothered mate.
pub fn smother_theme() -> BoxedStrategy<String> {
    (
        0u8..4,                                   // corner
        prop::collection::vec(0u8..5, 3),          // the three neighbours: 0 empty-ish pawn .. 4 queen
        any::<bool>(),                            // knight or bishop
        any::<u16>(),                             // attacker origin selector
        any::<bool>(),                            // attacker already on the mating square / one move away
        0u8..64,                                  // attacking king
        any::<bool>(),                            // colours swapped
    )
        .prop_map(|(corner, nb, knight, sel, delivered, ak, swap)| {
            let k: u8 = [0u8, 7, 56, 63][corner as usize];
            let (kf, kr) = (file_of(k), rank_of(k));
            let fdir: i8 = if kf == 0 { 1 } else { -1 };
            let rdir: i8 = if kr == 0 { 1 } else { -1 };
            let n1 = sq_of(kf + fdir, kr).unwrap();
            let n2 = sq_of(kf, kr + rdir).unwrap();
            let n3 = sq_of(kf + fdir, kr + rdir).unwrap();
            let defender_white = !swap;
            let mut items: Vec<(u8, u8, bool)> = Vec::new();
            for (s, t) in [(n1, nb[0]), (n2, nb[1]), (n3, nb[2])] {
                // type 0 = pawn (skipped on a back rank by build)
                items.push((s, t, defender_white));
            }
            // the classic mating squares: knight on (kf + fdir, kr + 2 rdir) / bishop on the long diagonal
            let mate_sq = if knight {
                sq_of(kf + fdir, kr + 2 * rdir).unwrap()
            } else {
                sq_of(kf + 2 * fdir, kr + 2 * rdir).unwrap()
            };
            let t: u8 = if knight { 1 } else { 2 };
            let attacker_sq = if delivered {
                mate_sq
            } else {
                let origins = attack_origins(t, !defender_white, mate_sq);
                pick(&origins, sel).unwrap_or(mate_sq)
            };
            items.push((attacker_sq, t, !defender_white));
            let (wk, bk) = if defender_white { (k, ak) } else { (ak, k) };
            let p = build(&RawPos {
                wk,
                bk,
                items,
                // delivered: the defender is to move (mated or not); else the attacker moves
                white_to_move: if delivered { defender_white } else { !defender_white },
                rights: 0,
                ep_file: None,
                half: 0,
            });
            p.fen()
        })
        .boxed()
}

/// Crowded tactical positions: several queens and rooks a side, pawns one step from promotion
/// with enemy pieces to capture on the last rank - long move lists full of captures,
/// capture-promotions and checks (what move ordering has to sort).
pub fn tactical_crowd() -> BoxedStrategy<String> {
    (
        0u8..64,
        0u8..64,
        prop::collection::vec(weighted_item([0, 3, 3, 4, 6]), 10..22),
        prop::collection::vec((0u8..8, any::<bool>()), 1..5),
        prop::collection::vec((0u8..8, 1u8..5, any::<bool>()), 2..6),
        any::<bool>(),
    )
        .prop_map(|(wk, bk, pieces, pawns, backrank, white_to_move)| {
            let mut items = Vec::new();
            for (f, w) in pawns {
                items.push((if w { 6 * 8 + f } else { 8 + f }, 0u8, w));
            }
            for (f, t, on_eighth) in backrank {
                // enemy pieces on the rank the pawns promote on
                items.push((if on_eighth { 56 + f } else { f }, t, !on_eighth));
            }
            items.extend(pieces);
            build(&RawPos {
                wk,
                bk,
                items,
                white_to_move,
                rights: 0,
                ep_file: None,
                half: 0,
            })
            .fen()
        })
        .boxed()
}

/// Overwhelming material against a bare king that stands on or near the edge: forced mates in
/// two to four moves are common (mate scores at several depths inside one search tree).
pub fn mating_material() -> BoxedStrategy<String> {
    (
        any::<bool>(),
        0u8..28,
        (-2i8..=2, -2i8..=2),
        prop::collection::vec((0u8..64, prop_oneof![Just(3u8), Just(4u8)]), 2..4),
        0u8..64,
        any::<bool>(),
    )
        .prop_map(|(attacker_white, e, (df, dr), heavy, ak, attacker_to_move)| {
            let edge: Vec<u8> = (0..64u8)
                .filter(|s| file_of(*s) == 0 || file_of(*s) == 7 || rank_of(*s) == 0 || rank_of(*s) == 7)
                .collect();
            let base = edge[e as usize % edge.len()];
            let dk = sq_of((file_of(base) + df).clamp(0, 7), (rank_of(base) + dr).clamp(0, 7)).unwrap();
            let items: Vec<(u8, u8, bool)> = heavy.into_iter().map(|(s, t)| (s, t, attacker_white)).collect();
            let (wk, bk) = if attacker_white { (ak, dk) } else { (dk, ak) };
            let mut p = build(&RawPos {
                wk,
                bk,
                items,
                white_to_move: attacker_white == attacker_to_move,
                rights: 0,
                ep_file: None,
                half: 0,
            });
            p.half = 0;
            p.fen()
        })
        .boxed()
}

/// Perpetual-check geometry: a king behind its own g-pawn is checked by a queen shuttling between
/// e1 and h4 (every reply is forced), while the checked side is far ahead in material. Mirrored
/// over the files, rotated to the other colour, started at any of the four plies of the cycle.
pub fn perpetual_theme() -> BoxedStrategy<String> {
    (
        prop::collection::vec((0u8..4, 3u8..7, prop_oneof![Just(P::Rook), Just(P::Bishop), Just(P::Knight), Just(P::Pawn), Just(P::Queen)]), 0..4),
        0u8..6,
        any::<bool>(),
        any::<bool>(),
        0u8..4,
    )
        .prop_map(|(extras, bk_sel, mirror, swap, phase)| {
            let make = |extras: &[(u8, u8, P)]| {
                let mut p = Pos::empty();
                p.sq[sq_of(6, 0).unwrap() as usize] = Some((P::King, Side::White));
                p.sq[sq_of(6, 1).unwrap() as usize] = Some((P::Pawn, Side::White));
                p.sq[sq_of(7, 3).unwrap() as usize] = Some((P::Queen, Side::Black));
                let bk = [sq_of(0, 7), sq_of(1, 7), sq_of(2, 7), sq_of(0, 6), sq_of(1, 6), sq_of(2, 6)][bk_sel as usize].unwrap();
                p.sq[bk as usize] = Some((P::King, Side::Black));
                for (f, r, k) in extras {
                    let s = sq_of(*f as i8, *r as i8).unwrap() as usize;
                    if p.sq[s].is_none() {
                        p.sq[s] = Some((*k, Side::White));
                    }
                }
                p.side = Side::Black;
                p.rights = 0;
                p.ep = None;
                p.half = 0;
                p
            };
            let mut p = make(&extras);
            // the extras must leave the geometry intact: black is not in check, and after Qe1+
            // white has exactly one reply
            let ok = |p: &Pos| {
                p.consistent().is_ok() && !p.in_check(Side::Black) && {
                    let q = p.legal_moves().into_iter().find(|m| m.from == sq_of(7, 3).unwrap() && m.to == sq_of(4, 0).unwrap());
                    match q {
                        Some(q) => {
                            let p1 = p.make(&q);
                            p1.in_check(Side::White) && p1.legal_moves().len() == 1
                        }
                        None => false,
                    }
                }
            };
            if !ok(&p) {
                p = make(&[(0, 6, P::Rook), (1, 5, P::Rook)]);
                if !ok(&p) {
                    p = make(&[]);
                }
            }
            // start somewhere on the cycle
            for _ in 0..phase {
                let legal = p.legal_moves();
                let next = legal.iter().find(|m| {
                    let n = p.make(m);
                    (p.side == Side::Black && n.in_check(Side::White) && p.sq[m.from as usize] == Some((P::Queen, Side::Black)) && m.cap.is_none()) || (p.side == Side::White && legal.len() == 1)
                });
                match next {
                    Some(m) => p = p.make(m),
                    None => break,
                }
            }
            p.half = 0;
            p.ply = 0;
            if mirror {
                let mut n = p.clone();
                for s in 0..64u8 {
                    n.sq[sq_of(7 - file_of(s), rank_of(s)).unwrap() as usize] = p.sq[s as usize];
                }
                p = n;
            }
            if swap {
                p = p.rotated_swapped();
            }
            p.fen()
        })
        .boxed()
}

/// Positions that are checkmate or stalemate far more often than any placement: a cage or
/// few-piece set-up followed by a greedy walk that shrinks the opponent's options.
pub fn terminal_biased() -> BoxedStrategy<String> {
    (
        prop_oneof![
            3 => cage_theme().prop_map(|r| build(&r)),
            2 => endgame(3).prop_map(|r| build(&r)),
            1 => placement(8).prop_map(|r| build(&r)),
        ],
        prop::collection::vec(any::<u16>(), 1..7),
    )
        .prop_map(|(p, sels)| {
            let mut q = seek_terminal(&p, &sels);
            q.half = 0;
            q.fen()
        })
        .boxed()
}

fn splitmix(state: &mut u64) -> u64 {
    *state = state.wrapping_add(0x9E37_79B9_7F4A_7C15);
    let mut z = *state;
    z = (z ^ (z >> 30)).wrapping_mul(0xBF58_476D_1CE4_E5B9);
    z = (z ^ (z >> 27)).wrapping_mul(0x94D0_49BB_1331_11EB);
    z ^ (z >> 31)
}

/// A checkmate (or, with `stalemate`, a stalemate) of the king of `mated` standing on `ks`; for a
/// mate the single checker is a piece of kind `kind`. Built by bounded randomized construction
/// (all choices derived from `seed`) and accepted by the reference rules.
pub fn construct_terminal(ks: u8, kind: P, mated: Side, stalemate: bool, seed: u64) -> Option<Pos> {
    construct_terminal_at(ks, kind, mated, stalemate, seed, None, None)
}

/// As `construct_terminal`, with the checker on a given square and a square that stays empty.
pub fn construct_terminal_at(ks: u8, kind: P, mated: Side, stalemate: bool, seed: u64, checker_at: Option<u8>, keep_empty: Option<u8>) -> Option<Pos> {
    let att = mated.other();
    let mut rng = seed ^ ((ks as u64) << 40) ^ ((kind as u64) << 48);
    let pawn_ok = |s: u8| rank_of(s) != 0 && rank_of(s) != 7;
    let blockers = [P::Pawn, P::Knight, P::Bishop, P::Rook, P::Pawn, P::Knight];
    let extras = [P::Queen, P::Rook, P::Bishop, P::Knight, P::Pawn, P::Rook, P::Pawn];
    for _ in 0..600 {
        let mut p = Pos::empty();
        p.sq[ks as usize] = Some((P::King, mated));
        let mut cs: Option<u8> = None;
        if !stalemate {
            let cands: Vec<u8> = (0..64u8)
                .filter(|&s| s != ks && checker_at.map_or(true, |c| c == s) && (kind != P::Pawn || pawn_ok(s)) && p.piece_attacks(s, kind, att, ks))
                .collect();
            if cands.is_empty() {
                return None;
            }
            let c = cands[(splitmix(&mut rng) % cands.len() as u64) as usize];
            p.sq[c as usize] = Some((kind, att));
            cs = Some(c);
        }
        // the other king
        let free_far: Vec<u8> = (0..64u8).filter(|&s| p.sq[s as usize].is_none() && !adjacent(s, ks) && s != ks && Some(s) != keep_empty).collect();
        let ak = free_far[(splitmix(&mut rng) % free_far.len() as u64) as usize];
        p.sq[ak as usize] = Some((P::King, att));
        for f in 0..64u8 {
            if !adjacent(f, ks) || p.sq[f as usize].is_some() || Some(f) == keep_empty {
                continue;
            }
            if splitmix(&mut rng) % 10 < 5 {
                let b = blockers[(splitmix(&mut rng) % blockers.len() as u64) as usize];
                if b != P::Pawn || pawn_ok(f) {
                    p.sq[f as usize] = Some((b, mated));
                }
            }
        }
        let n_extra = 1 + splitmix(&mut rng) % 4;
        for _ in 0..n_extra {
            let s = (splitmix(&mut rng) % 64) as u8;
            let k = extras[(splitmix(&mut rng) % extras.len() as u64) as usize];
            if p.sq[s as usize].is_none() && Some(s) != keep_empty && (k != P::Pawn || pawn_ok(s)) {
                p.sq[s as usize] = Some((k, att));
            }
        }
        p.side = mated;
        p.rights = 0;
        p.ep = None;
        p.half = 0;
        if p.consistent().is_err() {
            continue;
        }
        let checkers: Vec<u8> = (0..64u8)
            .filter(|&s| matches!(p.sq[s as usize], Some((k, c)) if c == att && p.piece_attacks(s, k, c, ks)))
            .collect();
        let good = if stalemate { checkers.is_empty() } else { checkers.len() == 1 && Some(checkers[0]) == cs };
        if good && p.legal_moves().is_empty() {
            return Some(p);
        }
    }
    None
}

/// Terminal atlas: mates by every kind of checker and stalemates, on every king square, for both
/// colours (where the construction succeeds; other terminal positions otherwise).
pub fn terminal_atlas() -> BoxedStrategy<String> {
    (0u8..64, 0u8..6, any::<bool>(), any::<u64>())
        .prop_map(|(ks, what, white_mated, seed)| {
            let mated = if white_mated { Side::White } else { Side::Black };
            let kinds = [P::Pawn, P::Knight, P::Bishop, P::Rook, P::Queen];
            let first = what as usize;
            for i in 0..6 {
                let w = (first + i) % 6;
                let r = if w == 5 {
                    construct_terminal(ks, P::Queen, mated, true, seed)
                } else {
                    construct_terminal(ks, kinds[w], mated, false, seed)
                };
                if let Some(p) = r {
                    return p.fen();
                }
            }
            "7k/5KQ1/8/8/8/8/8/8 b - - 0 1".to_string()
        })
        .boxed()
}

pub fn standard_fens() -> Vec<String> {
    STANDARD.iter().map(|x| x.1.to_string()).collect()
}

/// Extra hand-made seeds rich in special moves.
pub const EXTRA_SEEDS: [&str; 8] = [
    // both sides can castle either way, nothing in between
    "r3k2r/8/8/8/8/8/8/R3K2R w KQkq - 0 1",
    "r3k2r/8/8/8/8/8/8/R3K2R b KQkq - 0 1",
    // promotions with captures on both wings
    "rn2k1nr/1P4P1/8/8/8/8/1p4p1/RN2K1NR w KQkq - 0 1",
    // en passant pinned along the rank
    "8/8/8/KPp4r/8/8/8/7k w - c6 0 1",
    // en passant as the only way out of check
    "8/8/8/2k5/3Pp3/8/8/4K3 b - d3 0 1",
    // many queens
    "QQQ4k/8/8/8/8/8/8/K4qqq w - - 0 1",
    // pawns about to double-step next to enemy pawns
    "4k3/pppppppp/8/PPPPPPPP/pppppppp/8/PPPPPPPP/4K3 w - - 0 1",
    // knights and rooks able to reach the same squares
    "4k3/8/8/8/2N3N1/8/R6R/2N1K1N1 w - - 0 1",
];

/// Mutual fortresses: both sides have exactly one legal move, for ever (the kings shuffle
/// between two squares, everything else is blocked). Forced lines of unbounded length.
pub const FORCED_SEEDS: [&str; 4] = [
    "5b1k/4p1p1/4P1P1/8/8/1p1p4/1P1P4/K1B5 w - - 0 1",
    "5b1k/4p1p1/4P1P1/8/8/1p1p4/1P1P4/K1B5 b - - 0 1",
    "k1b5/1p1p4/1P1P4/8/8/4p1p1/4P1P1/5B1K w - - 0 1",
    "k1b5/1p1p4/1P1P4/8/8/4p1p1/4P1P1/5B1K b - - 0 1",
];

pub fn seed_fen() -> BoxedStrategy<String> {
    let std = standard_fens();
    prop_oneof![
        4 => Just(std[0].clone()),
        2 => (1usize..6).prop_map(move |i| standard_fens()[i].clone()),
        2 => (0usize..EXTRA_SEEDS.len()).prop_map(|i| EXTRA_SEEDS[i].to_string()),
        2 => placement(24).prop_map(|r| build(&r).fen()),
        2 => pawn_placement().prop_map(|r| build(&r).fen()),
        2 => castle_theme().prop_map(|r| build(&r).fen()),
        2 => ep_theme().prop_map(|r| build(&r).fen()),
        2 => promo_theme().prop_map(|r| build(&r).fen()),
        1 => crowded_promo().prop_map(|r| build(&r).fen()),
        1 => pin_check_theme().prop_map(|r| build(&r).fen()),
        1 => ambiguity_theme().prop_map(|r| build(&r).fen()),
    ]
    .boxed()
}

pub fn walk(max_len: usize) -> BoxedStrategy<Walk> {
    (seed_fen(), prop::collection::vec(any::<u16>(), 0..=max_len))
        .prop_map(|(fen, sels)| Walk { fen, sels })
        .boxed()
}

/// Rule-interaction-biased mix of set-up and reachable positions, as a FEN string.
/// Seven to nine queens of the side to move on an open board (move lists of 130..220 moves),
/// the other king walled into a corner by its own men so that the position is legal, and a few
/// enemy pieces around so that some king steps, pawn moves or queen moves of the mover are
/// illegal (attacked squares, pins, checks).
pub fn queen_swarm() -> BoxedStrategy<String> {
    (
        (prop::collection::vec(0u8..64, 8..=9), prop::collection::vec(0u8..64, 0..=4)),
        0u8..64,
        prop::collection::vec((0u8..64, prop_oneof![Just(P::Rook), Just(P::Bishop), Just(P::Queen), Just(P::Knight)]), 1..4),
        prop::collection::vec((0u8..64, any::<bool>()), 0..3),
        0u8..4,
        any::<bool>(),
    )
        .prop_map(|((queens, heavies), mk, enemies, pawns, corner, white_moves)| {
            let mover = if white_moves { Side::White } else { Side::Black };
            let other = mover.other();
            let flip = |f: i8, r: i8| -> u8 {
                let f = if corner & 1 == 1 { 7 - f } else { f };
                let r = if corner & 2 == 2 { 7 - r } else { r };
                sq_of(f, r).unwrap()
            };
            let mut p = Pos::empty();
            // the walled-in king: corner square, its three neighbours held by its own men
            p.sq[flip(0, 7) as usize] = Some((P::King, other));
            p.sq[flip(1, 7) as usize] = Some((P::Knight, other));
            p.sq[flip(0, 6) as usize] = Some((P::Pawn, other));
            p.sq[flip(1, 6) as usize] = Some((P::Pawn, other));
            let wall = [flip(0, 7), flip(1, 7), flip(0, 6), flip(1, 6)];
            // a pawn on its own first/last rank is impossible: swap it for a bishop there
            for s in wall {
                if let Some((P::Pawn, c)) = p.sq[s as usize] {
                    if rank_of(s) == 0 || rank_of(s) == 7 {
                        p.sq[s as usize] = Some((P::Bishop, c));
                    }
                }
            }
            let mut mk = mk;
            let mut guard = 0;
            while (p.sq[mk as usize].is_some() || adjacent(mk, flip(0, 7))) && guard < 64 {
                mk = (mk + 7) % 64;
                guard += 1;
            }
            p.sq[mk as usize] = Some((P::King, mover));
            for q in queens {
                if p.sq[q as usize].is_none() {
                    p.sq[q as usize] = Some((P::Queen, mover));
                }
            }
            // two rooks and two bishops at most: nine queens use up all eight promotions
            for (i, h) in heavies.into_iter().enumerate() {
                if p.sq[h as usize].is_none() {
                    p.sq[h as usize] = Some((if i < 2 { P::Rook } else { P::Bishop }, mover));
                }
            }
            for (s, k) in enemies {
                if p.sq[s as usize].is_none() {
                    p.sq[s as usize] = Some((k, other));
                }
            }
            // legal material: a queen beyond the first is a promoted pawn
            let mut mover_pawns_left = 9 - p.count(P::Queen, mover) as i32;
            for (s, mine) in pawns {
                if p.sq[s as usize].is_none() && rank_of(s) != 0 && rank_of(s) != 7 {
                    if mine {
                        if mover_pawns_left <= 0 {
                            continue;
                        }
                        mover_pawns_left -= 1;
                    }
                    p.sq[s as usize] = Some((P::Pawn, if mine { mover } else { other }));
                }
            }
            p.side = mover;
            p.rights = 0;
            p.ep = None;
            p.half = 0;
            // the wall keeps every line to the corner closed, knights excepted: a consistent
            // position almost always; otherwise thin out the mover's men until it is
            let mut rounds = 0;
            while p.consistent().is_err() && rounds < 12 {
                let k = p.king_sq(other).unwrap();
                for s in 0..64u8 {
                    if let Some((pc, c)) = p.sq[s as usize] {
                        if c == mover && pc != P::King && p.piece_attacks(s, pc, c, k) {
                            p.sq[s as usize] = None;
                        }
                    }
                }
                rounds += 1;
            }
            if p.consistent().is_err() {
                return "QQQ4k/8/8/8/8/8/8/K4qqq w - - 0 1".to_string();
            }
            p.fen()
        })
        .boxed()
}

pub fn position() -> BoxedStrategy<String> {
    prop_oneof![
        1 => queen_swarm(),
        1 => tactical_crowd(),
        1 => material_extreme().prop_map(|r| build(&r).fen()),
        3 => placement(28).prop_map(|r| build(&r).fen()),
        2 => pawn_placement().prop_map(|r| build(&r).fen()),
        3 => castle_theme().prop_map(|r| build(&r).fen()),
        3 => ep_theme().prop_map(|r| build(&r).fen()),
        1 => pre_double_step(),
        2 => promo_theme().prop_map(|r| build(&r).fen()),
        1 => crowded_promo().prop_map(|r| build(&r).fen()),
        3 => pin_check_theme().prop_map(|r| build(&r).fen()),
        2 => cage_theme().prop_map(|r| build(&r).fen()),
        1 => ambiguity_theme().prop_map(|r| build(&r).fen()),
        1 => endgame(5).prop_map(|r| build(&r).fen()),
        4 => walk(60).prop_map(|w| walk_end(&w).fen()),
    ]
    .boxed()
}

/// Labels describing which rule interactions a position exhibits.
pub fn labels(pos: &Pos) -> Vec<&'static str> {
    let mut out = Vec::new();
    let side = pos.side;
    let legal = pos.legal_moves();
    let pseudo = pos.pseudo_moves(side);
    let checkers = pos.checkers(side);
    if checkers == 1 {
        out.push("in-check");
    }
    if checkers >= 2 {
        out.push("double-check");
    }
    if legal.is_empty() {
        out.push(if checkers > 0 { "checkmate" } else { "stalemate" });
    }
    if legal.len() == 1 {
        out.push("single-legal-move");
    }
    if legal.len() < pseudo.len() {
        out.push("illegal-pseudo-move");
    }
    if legal.iter().any(|m| m.kind == Kind::Ep) {
        out.push("ep-legal");
    }
    if pseudo.iter().any(|m| m.kind == Kind::Ep && !legal.contains(m)) {
        out.push("ep-pseudo-illegal");
    }
    if pos.ep.is_some() && !pseudo.iter().any(|m| m.kind == Kind::Ep) {
        out.push("ep-target-no-capturer");
    }
    if legal.iter().any(|m| m.kind == Kind::Castle && m.to > m.from) {
        out.push("castle-K-available");
    }
    if legal.iter().any(|m| m.kind == Kind::Castle && m.to < m.from) {
        out.push("castle-Q-available");
    }
    // castle prevented only by an attack: right held, squares empty, but not generated
    let (ksq, kbit, qbit) = if side == Side::White { (E1, WK, WQ) } else { (E8, BK, BQ) };
    if pos.rights & kbit != 0
        && pos.sq[(ksq + 1) as usize].is_none()
        && pos.sq[(ksq + 2) as usize].is_none()
        && !legal.iter().any(|m| m.kind == Kind::Castle && m.to > m.from)
    {
        out.push("castle-K-blocked-by-attack");
    }
    if pos.rights & qbit != 0
        && pos.sq[(ksq - 1) as usize].is_none()
        && pos.sq[(ksq - 2) as usize].is_none()
        && pos.sq[(ksq - 3) as usize].is_none()
        && !legal.iter().any(|m| m.kind == Kind::Castle && m.to < m.from)
    {
        out.push("castle-Q-blocked-by-attack");
    }
    if pos.rights & qbit != 0
        && pos.sq[(ksq - 1) as usize].is_none()
        && pos.sq[(ksq - 2) as usize].is_none()
        && pos.sq[(ksq - 3) as usize].is_none()
        && pos.attacked(ksq - 3, side.other())
        && legal.iter().any(|m| m.kind == Kind::Castle && m.to < m.from)
    {
        out.push("castle-Q-with-b-file-attacked");
    }
    if legal.iter().any(|m| m.kind == Kind::Promo) {
        out.push("promotion");
    }
    if legal.iter().any(|m| m.kind == Kind::Promo && m.cap.is_some()) {
        out.push("promotion-capture");
    }
    if legal.iter().any(|m| m.kind == Kind::Promo) && checkers > 0 {
        out.push("promotion-in-check");
    }
    if legal
        .iter()
        .any(|m| m.kind == Kind::Std && pos.sq[m.from as usize].map(|x| x.0) == Some(P::Pawn) && (m.to as i8 - m.from as i8).abs() == 16)
    {
        out.push("double-step");
    }
    // pinned piece: some piece (not the king) has a pseudo-legal move that is illegal while not in check
    if checkers == 0
        && pseudo
            .iter()
            .any(|m| !legal.contains(m) && pos.sq[m.from as usize].map(|x| x.0) != Some(P::King))
    {
        out.push("pinned-piece");
    }
    out
}

/// Labels that make a position non-trivial for move-generation style properties.
pub fn is_rule_interaction(labels: &[&'static str]) -> bool {
    labels.iter().any(|l| {
        matches!(
            *l,
            "in-check"
                | "double-check"
                | "checkmate"
                | "stalemate"
                | "illegal-pseudo-move"
                | "ep-legal"
                | "ep-pseudo-illegal"
                | "castle-K-available"
                | "castle-Q-available"
                | "castle-K-blocked-by-attack"
                | "castle-Q-blocked-by-attack"
                | "promotion"
                | "pinned-piece"
        )
    })
}
