//! One module per property (some share a file); `property(id)` is the registry.

pub mod c01;
pub mod c05;
pub mod c09;
pub mod c11;
pub mod game;
pub mod hist;
pub mod pos;
pub mod recur;
pub mod search;
pub mod util;

use crate::runner::DynCheck;

fn with_recurrence(rule: &'static str) -> &'static str {
    Box::leak(format!("{}{}", rule, recur::RULE).into_boxed_str())
}

fn rec(name: &'static str, judge: recur::Judge) -> Box<dyn DynCheck> {
    Box::new(recur::RecurrenceGames { name, judge })
}

pub struct PropertySpec {
    pub id: &'static str,
    pub rule: &'static str,
    pub assumptions: Vec<&'static str>,
    pub checks: Vec<Box<dyn DynCheck>>,
}

const ORACLE: &str = "the mailbox reference rule engine in harness/src/oracle (validated against published perft totals of the six standard positions before every run)";
const SETUP: &str = "positions are built through the public set-up API (Board::new, put, set_turn, lose_castle_rights, push_en_passant_target, push_halfmove_clock) and are consistent set-ups in the sense of the property";
const CAP: &str = "the cfg(chess_verif) hook lowers the move-generator LRU capacity (eviction only); a slice of the cases runs with the real default";

pub fn property(id: &str) -> Option<PropertySpec> {
    Some(match id {
        "C01" => PropertySpec {
            id: "C01",
            rule: c01::RULE,
            assumptions: vec![ORACLE, SETUP, CAP],
            checks: c01::checks(),
        },
        "C03" => PropertySpec {
            id: "C03",
            rule: with_recurrence(hist::C03_RULE),
            assumptions: vec![ORACLE, SETUP],
            checks: vec![
                Box::new(hist::C03Moves),
                Box::new(hist::C03Histories),
                Box::new(hist::C03LongGames),
                Box::new(hist::C03Marathon),
                rec("C03/recurrence-games", recur::Judge { successor: true, ..Default::default() }),
            ],
        },
        "C04" => PropertySpec {
            id: "C04",
            rule: hist::C04_RULE,
            assumptions: vec![ORACLE, SETUP, "stack depths are private and observed only through unwinding"],
            checks: vec![
                Box::new(hist::C04Histories),
                Box::new(hist::C04EngineMoves),
                Box::new(hist::C04LongGames),
                Box::new(hist::C04Marathon),
                Box::new(search::DeepMateSearches { name: "C04/deep-mate-searches" }),
            ],
        },
        "C05" => PropertySpec {
            id: "C05",
            rule: with_recurrence(c05::RULE),
            assumptions: vec![ORACLE, SETUP, "a first lose_castle_rights/push_en_passant_target on a new board toggles exactly the requested keys, so the from-scratch board is a valid reference for the key of a position"],
            checks: {
                let mut v = c05::checks();
                v.push(rec("C05/recurrence-games", recur::Judge { key: true, ..Default::default() }));
                v
            },
        },
        "C12" => PropertySpec {
            id: "C12",
            rule: with_recurrence(hist::C12_RULE),
            assumptions: vec![ORACLE, SETUP],
            checks: vec![Box::new(hist::C12Histories), Box::new(hist::C12EngineMoves), Box::new(hist::C12EngineDriven), Box::new(hist::C12LongGames), Box::new(hist::C12Marathon), rec("C12/recurrence-games", recur::Judge { invariants: true, ..Default::default() })],
        },
        "C16" => PropertySpec {
            id: "C16",
            rule: with_recurrence(hist::C16_RULE),
            assumptions: vec![ORACLE, SETUP, "harness and engine are compiled with overflow-checks and debug-assertions on"],
            checks: vec![Box::new(hist::C16Games), Box::new(game::C16GameApi), Box::new(hist::C16Marathon), rec("C16/recurrence-games", recur::Judge { clock: true, ..Default::default() })],
        },
        "C02" => PropertySpec {
            id: "C02",
            rule: pos::C02_RULE,
            assumptions: vec![ORACLE, SETUP, CAP, "what get_attack_targets includes (e.g. defended own squares) is an engine convention: attack maps are compared between generators only"],
            checks: pos::c02_checks(),
        },
        "C06" => PropertySpec {
            id: "C06",
            rule: pos::C06_RULE,
            assumptions: vec![ORACLE, SETUP, CAP],
            checks: pos::c06_checks(),
        },
        "C07" => PropertySpec {
            id: "C07",
            rule: with_recurrence(search::C07_RULE),
            assumptions: vec![ORACLE, SETUP, CAP, "a hang is caught by the watchdog and reported as inconclusive (exit 2), never as a violation"],
            checks: {
                let mut v = search::c07_checks();
                v.push(rec("C07/recurrence-games", recur::Judge { engine: true, ..Default::default() }));
                v
            },
        },
        "C08" => PropertySpec {
            id: "C08",
            rule: search::C08_RULE,
            assumptions: vec![ORACLE, SETUP, CAP, "leaf values come from the engine's public evaluate::board_material_score and mate scores from evaluate::score on canonical mated boards, so retuning the evaluation does not raise an alarm (C18 owns the evaluation's laws)"],
            checks: search::c08_checks(),
        },
        "C09" => PropertySpec {
            id: "C09",
            rule: c09::RULE,
            assumptions: vec![ORACLE, SETUP, CAP, "every shared-cache access is made under a lock, so a real execution is equivalent (as far as cache contents go) to some interleaving of those accesses; lock acquisition order is not modelled", "with a pool of 64 >= root moves rayon gives every root task its own worker (the scheduler gives up control and reports inconclusive otherwise)"],
            checks: c09::checks(),
        },
        "C10" => PropertySpec {
            id: "C10",
            rule: search::C10_RULE,
            assumptions: vec![ORACLE, SETUP, CAP, "the CLI is the dev-profile build of /repo's working tree in /verif/target/debug"],
            checks: search::c10_checks(),
        },
        "C11" => PropertySpec {
            id: "C11",
            rule: c11::RULE,
            assumptions: vec!["attack maps are observed through MoveGenerator::get_attack_targets on boards holding one piece of the queried colour; blockers are enemy pieces because the engine's maps exclude squares held by the attacker's own pieces"],
            checks: c11::checks(),
        },
        "C13" => PropertySpec {
            id: "C13",
            rule: with_recurrence(pos::C13_RULE),
            assumptions: vec![ORACLE, SETUP, CAP, "reference SAN writer in harness/src/oracle/notation.rs (FIDE C.10: file, then rank, then square)"],
            checks: vec![
                Box::new(pos::C13Positions),
                Box::new(game::Session {
                    name: "C13/session",
                    listings_only: true,
                }),
                rec("C13/recurrence-games", recur::Judge { listing: true, ..Default::default() }),
            ],
        },
        "C14" => PropertySpec {
            id: "C14",
            rule: with_recurrence(game::C14_RULE),
            assumptions: vec![ORACLE, SETUP, CAP, "move_history has no length accessor: it is observed through most_recent_move()", "the CLI is the dev-profile build of /repo's working tree in /verif/target/debug; unparseable output is inconclusive"],
            checks: {
                let mut v = game::c14_checks();
                v.push(rec("C14/recurrence-games", recur::Judge { typed: true, ..Default::default() }));
                v
            },
        },
        "C15" => PropertySpec {
            id: "C15",
            rule: with_recurrence(game::C15_RULE),
            assumptions: vec![ORACLE, SETUP, CAP, "the choice among book continuations is the engine's own thread_rng; every child is also covered deterministically by the trie walk"],
            checks: {
                let mut v = game::c15_checks();
                v.push(rec("C15/recurrence-games", recur::Judge { engine: true, ..Default::default() }));
                v.push(Box::new(search::DeepBlocked { name: "C15/deep-blocked" }));
                v
            },
        },
        "C17" => PropertySpec {
            id: "C17",
            rule: with_recurrence(game::C17_RULE),
            assumptions: vec![ORACLE, SETUP, "the caller flips the turn before registering, as the game loops do"],
            checks: {
                let mut v = game::c17_checks();
                v.push(rec("C17/recurrence-games", recur::Judge { counts: true, ..Default::default() }));
                v
            },
        },
        "C18" => PropertySpec {
            id: "C18",
            rule: pos::C18_RULE,
            assumptions: vec![SETUP, "harness and engine are compiled with overflow-checks on"],
            checks: pos::c18_checks(),
        },
        "C19" => PropertySpec {
            id: "C19",
            rule: pos::C19_RULE,
            assumptions: vec![ORACLE, SETUP, CAP, "the private parser is reached through the cfg(chess_verif) wrapper verif_create_chess_move_from_uci"],
            checks: vec![Box::new(pos::C19Positions)],
        },
        _ => return None,
    })
}

pub const ALL_IDS: [&str; 19] = [
    "C01", "C02", "C03", "C04", "C05", "C06", "C07", "C08", "C09", "C10", "C11", "C12", "C13", "C14", "C15",
    "C16", "C17", "C18", "C19",
];
