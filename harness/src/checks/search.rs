//! Search-related checks: C07 (legal answer, board untouched), C08 (exact minimax),
//! C10 (position counting).

use super::util::*;
use crate::bridge::*;
use crate::gen;
use crate::oracle::*;
use crate::runner::*;
use chess::alpha_beta_searcher::{alpha_beta_search, SearchContext, SearchError};
use chess::board::Board;
use chess::evaluate;
use chess::game::game::{Game, GameError};
use chess::move_generator::MoveGenerator;
use proptest::prelude::*;
use rayon::prelude::*;
use serde::{Deserialize, Serialize};
use serde_json::{json, Value};
use std::collections::BTreeMap;
use std::sync::{Arc, Mutex};

pub fn pool(n: usize) -> Arc<rayon::ThreadPool> {
    static POOLS: Mutex<BTreeMap<usize, Arc<rayon::ThreadPool>>> = Mutex::new(BTreeMap::new());
    let mut m = POOLS.lock().unwrap();
    m.entry(n)
        .or_insert_with(|| {
            Arc::new(
                rayon::ThreadPoolBuilder::new()
                    .num_threads(n)
                    .thread_name(move |i| format!("pool{}-{}", n, i))
                    .build()
                    .expect("thread pool"),
            )
        })
        .clone()
}

pub const POOL_SIZES: [usize; 6] = [1, 2, 3, 4, 16, 64];

// ------------------------------------------------------------------------------ C07

pub const C07_RULE: &str = "positions including checkmated, stalemated, single-legal-move and in-check ones (cage / pin-check themes, placements, endgames, reachable walks), half-move clock 0..150 and 0..3 prior registrations of the position (so draw-by-history states with legal moves are included), depth 0..5 (3 only for <= 8 men, 4 for <= 4 men, 5 for <= 3 men; 6..14 on forced lines where every node has one legal move), rayon pools of 1/2/3/4/16/64 threads, through alpha_beta_search with a new or a used generator (optionally followed by a second search with the same context on the same position or on the same placement with the other side to move) and through Game::select_alpha_beta_best_move: depth 0 -> Err(DepthTooLow) (a terminal position at depth 0 may report either declared error); no legal move and depth >= 1 -> Err(NoAvailableMoves); otherwise Ok(move) whose (kind, from, to, promotion, captured) is in the reference legal set; full observable snapshot identical before and after; no panic. Deep mate searches: depth 5..6 on positions of at most four men with a mate close by (mate in one at the root in some of them), board snapshot - turn included - identical afterwards. Deep blocked: kings and blocked pawn pairs (only kings can move) searched at growing depths from 8..11 on (steps of 1..3, new context each) for as long as the last search visited fewer than 60 000 nodes, at most 22. Heavy context: one SearchContext serves depth-4 searches of tiny endgames until several hundred thousand nodes have passed through its cache. Non-trivial = terminal, single legal move, in check, depth 0, clock >= 100 or repetition count 3 with legal moves, or pool size != 1; distinct = hash of the case.";

#[derive(Clone, Debug, Serialize, Deserialize)]
pub struct SearchCase {
    pub fen: String,
    pub depth: u8,
    pub pool: u8,
    pub half: u8,
    pub reps: u8,
    pub via_game: bool,
    pub used_generator: bool,
    /// a further search with the SAME context and generator: 0 none, 1 the same position again,
    /// 2 the same placement with the other side to move (if that is a consistent position)
    #[serde(default)]
    pub again: u8,
}

pub struct C07Searches;

/// exactly one legal move here and exactly one legal reply to it, four plies deep
fn legal_count_is_one(pos: &Pos) -> bool {
    let mut p = pos.clone();
    for _ in 0..4 {
        let l = p.legal_moves();
        if l.len() != 1 {
            return false;
        }
        p = p.make(&l[0]);
    }
    true
}

fn search_position() -> BoxedStrategy<String> {
    prop_oneof![
        5 => gen::terminal_biased(),
        3 => gen::tactical_crowd(),
        // up to nine queens a side on an open board: root move lists of 100..200 moves
        1 => gen::material_extreme().prop_map(|r| gen::build(&r).fen()),
        1 => gen::mating_material(),
        1 => (0usize..gen::FORCED_SEEDS.len(), prop::collection::vec(any::<u16>(), 0..4)).prop_map(|(i, sels)| {
            gen::walk_end(&gen::Walk { fen: gen::FORCED_SEEDS[i].to_string(), sels }).fen()
        }),
        3 => gen::cage_theme().prop_map(|r| gen::build(&r).fen()),
        3 => gen::pin_check_theme().prop_map(|r| gen::build(&r).fen()),
        3 => gen::endgame(5).prop_map(|r| gen::build(&r).fen()),
        2 => gen::placement(14).prop_map(|r| gen::build(&r).fen()),
        1 => gen::promo_theme().prop_map(|r| gen::build(&r).fen()),
        1 => gen::castle_theme().prop_map(|r| gen::build(&r).fen()),
        1 => gen::ep_theme().prop_map(|r| gen::build(&r).fen()),
        3 => gen::walk(60).prop_map(|w| gen::walk_end(&w).fen()),
    ]
    .boxed()
}

impl Prop for C07Searches {
    type Case = SearchCase;
    fn name(&self) -> &'static str {
        "C07/searches"
    }
    fn strategy(&self, _tier: Tier) -> BoxedStrategy<SearchCase> {
        (
            search_position(),
            prop_oneof![2 => Just(0u8), 8 => Just(1u8), 8 => Just(2u8), 4 => Just(3u8), 1 => Just(4u8), 1 => Just(5u8)],
            0u8..6,
            prop_oneof![6 => 0u8..40, 1 => 95u8..105, 1 => 100u8..=150],
            prop_oneof![8 => Just(0u8), 1 => Just(1u8), 1 => Just(2u8), 1 => Just(3u8)],
            any::<bool>(),
            any::<bool>(),
            prop_oneof![2 => Just(0u8), 1 => Just(1u8), 2 => Just(2u8), 2 => Just(3u8)],
        )
            .prop_map(|(fen, depth, pool, half, reps, via_game, used_generator, again)| SearchCase {
                fen,
                depth,
                pool,
                half,
                reps,
                via_game,
                used_generator,
                again,
            })
            .boxed()
    }
    fn cases(&self, tier: Tier) -> u32 {
        tier.pick(1_500, 30_000)
    }
    fn max_shrink_iters(&self) -> u32 {
        400
    }
    fn test(&self, c: &SearchCase, st: &mut Stats) -> TestResult {
        let mut pos = Pos::from_fen(&c.fen).map_err(Failure::new)?;
        pos.half = c.half as u32;
        let men = pos.men();
        // forced lines (one legal move, and one legal reply to it) cost nothing per ply: there
        // the depth goes up to 14
        let forced = legal_count_is_one(&pos);
        // depth 3 only for <= 8 men, 4 for <= 4 men, 5 for <= 3 men
        let depth = match (c.depth, men) {
            (d, _) if forced && d >= 1 => 6 + (c.half % 9),
            (d, m) if d >= 5 && m <= 3 => 5,
            (d, m) if d >= 4 && m <= 4 => 4,
            (d, m) if d >= 3 && m <= 8 => 3,
            (d, _) if d >= 3 => 2,
            (d, _) => d,
        };
        let legal = pos.legal_moves();
        let mut board = to_board(&pos);
        for _ in 0..c.reps {
            board.count_current_position();
        }
        let threads = POOL_SIZES[c.pool as usize % POOL_SIZES.len()];
        let p = pool(threads);
        let mut labels: Vec<&'static str> = Vec::new();
        if legal.is_empty() {
            labels.push(if pos.in_check(pos.side) { "checkmated" } else { "stalemated" });
        } else if legal.len() == 1 {
            labels.push("single-legal-move");
        }
        if !legal.is_empty() && pos.in_check(pos.side) {
            labels.push("in-check");
        }
        if depth == 0 {
            labels.push("depth-0");
        }
        if !legal.is_empty() && c.half >= 100 {
            labels.push("clock>=100-with-moves");
        }
        if !legal.is_empty() && c.reps == 3 {
            labels.push("repetition-3-with-moves");
        }
        if threads != 1 {
            labels.push("pool>1");
        }
        for l in &labels {
            st.label(l);
        }
        if !labels.is_empty() {
            st.nontrivial(fp_of(c), || json!({"fen": pos.fen(), "depth": depth, "threads": threads, "reps": c.reps, "via_game": c.via_game, "labels": labels}));
        }

        enum Outcome {
            Move(Mv),
            NoMoves,
            DepthTooLow,
            Other(String),
        }
        let (outcome, before, after) = if c.via_game {
            let mut game = Game::from_board(board, depth);
            let before = snapshot(game.board());
            let r = no_panic(|| p.install(|| game.select_alpha_beta_best_move()));
            let after = snapshot(game.board());
            let o = match r {
                Err(m) => return Err(fail_pos(format!("Game::select_alpha_beta_best_move panicked (depth {}, {} threads): {}", depth, threads, m), &pos)),
                Ok(Ok(m)) => Outcome::Move(mv_of(&m)),
                Ok(Err(GameError::SearchError { error: SearchError::NoAvailableMoves })) => Outcome::NoMoves,
                Ok(Err(GameError::SearchError { error: SearchError::DepthTooLow })) => Outcome::DepthTooLow,
                Ok(Err(e)) => Outcome::Other(format!("{:?}", e)),
            };
            (o, before, after)
        } else {
            let mut g = MoveGenerator::new();
            if c.used_generator {
                // a generator that has already answered for this and a neighbouring position
                let side = to_color(pos.side);
                g.generate_moves(&mut board, side);
                g.get_attack_targets(&board, side);
            }
            let mut ctx = SearchContext::new(depth);
            let before = snapshot(&board);
            let r = no_panic(|| p.install(|| alpha_beta_search(&mut ctx, &mut board, &mut g)));
            let after = snapshot(&board);
            let o = match r {
                Err(m) => return Err(fail_pos(format!("alpha_beta_search panicked (depth {}, {} threads): {}", depth, threads, m), &pos)),
                Ok(Ok(m)) => Outcome::Move(mv_of(&m)),
                Ok(Err(SearchError::NoAvailableMoves)) => Outcome::NoMoves,
                Ok(Err(SearchError::DepthTooLow)) => Outcome::DepthTooLow,
            };
            // a further search with the same context and generator
            if c.again != 0 && depth >= 1 {
                let mut pos2 = pos.clone();
                if c.again == 2 {
                    pos2.side = pos.side.other();
                    pos2.ep = None;
                }
                if c.again == 3 {
                    // a different position of the same game, two plies on, with the clock
                    // right at the draw threshold
                    for sel in [c.half as u16 * 257, c.reps as u16 * 4099 + 77] {
                        let l = pos2.legal_moves();
                        if l.is_empty() {
                            break;
                        }
                        pos2 = pos2.make(&gen::select(&l, sel.wrapping_mul(31)));
                    }
                    pos2.half = 96 + (c.half as u32 % 6);
                }
                if pos2.consistent().is_ok() {
                    let legal2 = pos2.legal_moves();
                    board.set_turn(to_color(pos2.side));
                    if (c.again == 2 && pos.ep.is_some()) || c.again == 3 {
                        // not reachable by flipping the turn: use a from-scratch board
                        board = to_board(&pos2);
                    }
                    let before2 = snapshot(&board);
                    let r2 = no_panic(|| p.install(|| alpha_beta_search(&mut ctx, &mut board, &mut g)));
                    let after2 = snapshot(&board);
                    st.label(match c.again {
                        2 => "second-search-other-side-same-context",
                        3 => "second-search-later-position-clock-near-100-same-context",
                        _ => "second-search-same-position-same-context",
                    });
                    if let Some(d) = snapshot_diff(&before2, &after2) {
                        return Err(fail_pos(format!("second search on the same context changed the caller's board: {}", d), &pos2));
                    }
                    let ok2 = match r2 {
                        Err(m) => return Err(fail_pos(format!("second search on the same context panicked: {}", m), &pos2)),
                        Ok(Ok(m)) => legal2.contains(&mv_of(&m)),
                        Ok(Err(SearchError::NoAvailableMoves)) => legal2.is_empty(),
                        Ok(Err(SearchError::DepthTooLow)) => false,
                    };
                    if !ok2 {
                        return Err(fail_pos(
                            format!(
                                "a second search with the same context ({}) did not return a legal move of {} ({} legal moves)",
                                match c.again {
                                    2 => "same placement, other side to move",
                                    3 => "a later position with the clock near 100",
                                    _ => "same position",
                                },
                                pos2.fen(),
                                legal2.len()
                            ),
                            &pos2,
                        ));
                    }
                }
            }
            (o, before, after)
        };
        if let Some(d) = snapshot_diff(&before, &after) {
            return Err(fail_pos(format!("search (depth {}, {} threads) changed the caller's board: {}", depth, threads, d), &pos));
        }
        let ok = match (&outcome, depth, legal.is_empty()) {
            (Outcome::DepthTooLow, 0, _) => true,
            (Outcome::NoMoves, 0, true) => true,
            (Outcome::NoMoves, d, true) if d >= 1 => true,
            (Outcome::Move(m), d, false) if d >= 1 => legal.contains(m),
            _ => false,
        };
        if !ok {
            let got = match &outcome {
                Outcome::Move(m) => format!("Ok({})", mv_text(m)),
                Outcome::NoMoves => "Err(NoAvailableMoves)".into(),
                Outcome::DepthTooLow => "Err(DepthTooLow)".into(),
                Outcome::Other(s) => format!("Err({})", s),
            };
            return Err(fail_pos(
                format!(
                    "search at depth {} with {} legal moves (half-move clock {}, {} registrations, {} threads, via_game={}) returned {}",
                    depth,
                    legal.len(),
                    c.half,
                    c.reps,
                    threads,
                    c.via_game,
                    got
                ),
                &pos,
            ));
        }
        Ok(())
    }
}

/// One SearchContext serves searches until several hundred thousand nodes have gone through
/// its cache (a long engine session): every answer must still be a legal move. A search that
/// does not come back within ten minutes is reported as inconclusive (exit 2), not a violation.
fn run_c07_heavy_context(env: &Env, agg: &mut Stats) -> Option<Violation> {
    use proptest::strategy::ValueTree;
    use proptest::test_runner::{Config, RngAlgorithm, TestRng, TestRunner};
    let name = "C07/heavy-context";
    let target_nodes: usize = env.tier.pick(320_000, 1_500_000);
    let mut runner = TestRunner::new_with_rng(
        Config::default(),
        TestRng::from_seed(RngAlgorithm::ChaCha, &derive_seed(env.seed, name, 0)),
    );
    let strat = prop_oneof![
        3 => gen::endgame(2).prop_map(|r| gen::build(&r)),
        1 => gen::pawn_race().prop_map(|r| gen::build(&r)),
    ];
    let mut ctx = SearchContext::new(4);
    let mut g = MoveGenerator::new();
    let mut total = 0usize;
    let mut searches = 0u64;
    let p = pool(4);
    while total < target_nodes && searches < 4000 {
        let mut pos = match strat.new_tree(&mut runner) {
            Ok(t) => t.current(),
            Err(_) => break,
        };
        pos.half = 0;
        if pos.men() > 4 || !pos.has_legal_move(pos.side) {
            continue;
        }
        let legal = pos.legal_moves();
        let mut board = to_board(&pos);
        // the search runs on a helper thread so that a hang can be told from slowness
        let (tx, rx) = std::sync::mpsc::channel();
        let r = std::thread::scope(|sc| {
            sc.spawn(|| {
                let r = no_panic(|| p.install(|| alpha_beta_search(&mut ctx, &mut board, &mut g)));
                let _ = tx.send(r);
            });
            match rx.recv_timeout(std::time::Duration::from_secs(600)) {
                Ok(r) => r,
                Err(_) => {
                    eprintln!(
                        "INCONCLUSIVE: a depth-4 search of {} on a context that has cached about {} nodes did not return within 600 s",
                        pos.fen(),
                        total
                    );
                    std::process::exit(2);
                }
            }
        });
        searches += 1;
        agg.eval();
        total += ctx.searched_position_count();
        match r {
            Ok(Ok(m)) => {
                if !legal.contains(&mv_of(&m)) {
                    return Some(violation(
                        name,
                        json!({"fen": pos.fen(), "searches_before": searches}),
                        fail_pos(format!("search #{} on one long-lived context returned {}, which is not legal", searches, mv_text(&mv_of(&m))), &pos),
                    ));
                }
            }
            Ok(Err(e)) => {
                return Some(violation(name, json!({"fen": pos.fen(), "searches_before": searches}), fail_pos(format!("search #{} on one long-lived context failed: {:?}", searches, e), &pos)))
            }
            Err(m) => {
                return Some(violation(name, json!({"fen": pos.fen(), "searches_before": searches}), fail_pos(format!("search #{} on one long-lived context panicked: {}", searches, m), &pos)))
            }
        }
        if searches % 16 == 1 {
            agg.nontrivial(pos.fingerprint(), || json!({"fen": pos.fen(), "nodes_through_the_context_so_far": total}));
        }
    }
    agg.count("nodes_through_one_context", total as u64);
    None
}

/// Kings and blocked pawn pairs only: the tree is so narrow (and so full of transpositions)
/// that depths of 12..18 plies are affordable - depths the command line accepts like any other.
pub struct DeepBlocked {
    pub name: &'static str,
}

#[derive(Clone, Debug, Serialize, Deserialize)]
pub struct DeepCase {
    pub fen: String,
    pub depth: u8,
    pub pool: u8,
    pub via_game: bool,
}

impl Prop for DeepBlocked {
    type Case = DeepCase;
    fn name(&self) -> &'static str {
        self.name
    }
    fn max_shrink_iters(&self) -> u32 {
        24
    }
    fn strategy(&self, _tier: Tier) -> BoxedStrategy<DeepCase> {
        (
            0u8..64,
            0u8..64,
            prop::collection::vec((0u8..8, 1u8..6), 1..4),
            any::<bool>(),
            any::<u8>(),
            0u8..6,
            any::<bool>(),
        )
            .prop_map(|(wk, bk, pairs, wtm, depth, pool, via_game)| {
                let mut items: Vec<(u8, u8, bool)> = Vec::new();
                let mut files = [false; 8];
                for (f, r) in pairs {
                    if files[f as usize] {
                        continue;
                    }
                    files[f as usize] = true;
                    // white pawn on rank r+1 (index r), black pawn right in front of it
                    items.push((r * 8 + f, 0, true));
                    items.push(((r + 1) * 8 + f, 0, false));
                }
                let mut p = gen::build(&gen::RawPos {
                    wk,
                    bk,
                    items,
                    white_to_move: wtm,
                    rights: 0,
                    ep_file: None,
                    half: 0,
                });
                p.half = 0;
                DeepCase {
                    fen: p.fen(),
                    depth,
                    pool,
                    via_game,
                }
            })
            .boxed()
    }
    fn cases(&self, tier: Tier) -> u32 {
        tier.pick(96, 1_200)
    }
    fn test(&self, c: &DeepCase, st: &mut Stats) -> TestResult {
        let pos = Pos::from_fen(&c.fen).map_err(Failure::new)?;
        let legal = pos.legal_moves();
        // only positions in which nothing but kings can move (no capture of a pawn in one move)
        if legal.is_empty() || legal.iter().any(|m| m.cap.is_some() || pos.sq[m.from as usize].map(|x| x.0) != Some(P::King)) {
            return Ok(());
        }
        let threads = POOL_SIZES[c.pool as usize % POOL_SIZES.len()];
        let p = pool(threads);
        // deeper and deeper (new context each time) for as long as the last search stayed small:
        // the work is bounded by node counts, not by the clock
        let mut depth = 8 + c.depth % 4;
        let mut deepest = 0;
        loop {
            let (r, nodes) = if c.via_game {
                let mut game = Game::from_board(to_board(&pos), depth);
                let r = no_panic(|| p.install(|| game.select_alpha_beta_best_move().map_err(|e| format!("{:?}", e))));
                (r, game.searched_position_count())
            } else {
                let mut board = to_board(&pos);
                let mut g = MoveGenerator::new();
                let mut ctx = SearchContext::new(depth);
                let r = no_panic(|| p.install(|| alpha_beta_search(&mut ctx, &mut board, &mut g).map_err(|e| format!("{:?}", e))));
                (r, ctx.searched_position_count())
            };
            st.count("deep_searches", 1);
            st.count("deep_search_nodes", nodes as u64);
            match r {
                Ok(Ok(m)) => {
                    let mv = mv_of(&m);
                    if !legal.contains(&mv) {
                        return Err(fail_pos(format!("depth-{} search returned {}, which is not legal", depth, mv_text(&mv)), &pos));
                    }
                }
                Ok(Err(e)) => return Err(fail_pos(format!("depth-{} search answered {} although {} legal moves exist", depth, e, legal.len()), &pos)),
                Err(m) => return Err(fail_pos(format!("depth-{} search ({} threads) panicked: {}", depth, threads, m), &pos)),
            }
            deepest = depth;
            if nodes > 60_000 || depth >= 22 {
                break;
            }
            depth += 1 + (c.depth / 4) % 3;
        }
        st.label(&format!("deepest-{}", deepest.min(22)));
        st.nontrivial(fp_of(c), || json!({"fen": pos.fen(), "deepest_depth": deepest, "threads": threads, "via_game": c.via_game}));
        Ok(())
    }
}

/// Searches of depth 5..6 (deeper than any default) on tiny positions in which a mate is close
/// (mate in one or two, or being mated): the caller's board - turn included - must come back
/// exactly as it was, and the move must be legal.
pub struct DeepMateSearches {
    pub name: &'static str,
}

impl Prop for DeepMateSearches {
    type Case = DeepCase;
    fn name(&self) -> &'static str {
        self.name
    }
    fn max_shrink_iters(&self) -> u32 {
        60
    }
    fn strategy(&self, _tier: Tier) -> BoxedStrategy<DeepCase> {
        (
            prop_oneof![
                4 => gen::mating_material(),
                2 => gen::pre_terminal(),
                1 => gen::endgame(2).prop_map(|r| gen::build(&r).fen()),
            ],
            5u8..=6,
            0u8..6,
            any::<bool>(),
        )
            .prop_map(|(fen, depth, pool, via_game)| DeepCase { fen, depth, pool, via_game })
            .boxed()
    }
    fn cases(&self, tier: Tier) -> u32 {
        tier.pick(320, 8_000)
    }
    fn test(&self, c: &DeepCase, st: &mut Stats) -> TestResult {
        let mut pos = Pos::from_fen(&c.fen).map_err(Failure::new)?;
        pos.half = 0;
        let legal = pos.legal_moves();
        if legal.is_empty() || pos.men() > 4 {
            return Ok(());
        }
        let depth = if pos.men() == 4 { 5 } else { c.depth };
        let threads = POOL_SIZES[c.pool as usize % POOL_SIZES.len()];
        let p = pool(threads);
        let mate_in_one = legal.iter().any(|m| {
            let n = pos.make(m);
            n.legal_moves().is_empty() && n.in_check(n.side)
        });
        let (r, before, after) = if c.via_game {
            let mut game = Game::from_board(to_board(&pos), depth);
            let before = snapshot(game.board());
            let r = no_panic(|| p.install(|| game.select_alpha_beta_best_move().map_err(|e| format!("{:?}", e))));
            (r, before, snapshot(game.board()))
        } else {
            let mut board = to_board(&pos);
            let mut g = MoveGenerator::new();
            let mut ctx = SearchContext::new(depth);
            let before = snapshot(&board);
            let r = no_panic(|| p.install(|| alpha_beta_search(&mut ctx, &mut board, &mut g).map_err(|e| format!("{:?}", e))));
            (r, before, snapshot(&board))
        };
        if mate_in_one {
            st.label("mate-in-one-at-the-root");
        }
        st.label(&format!("depth-{}", depth));
        st.nontrivial(fp_of(c), || json!({"fen": pos.fen(), "depth": depth, "threads": threads, "via_game": c.via_game, "mate_in_one": mate_in_one}));
        match r {
            Ok(Ok(m)) => {
                let mv = mv_of(&m);
                if !legal.contains(&mv) {
                    return Err(fail_pos(format!("depth-{} search returned {}, which is not legal", depth, mv_text(&mv)), &pos));
                }
            }
            Ok(Err(e)) => return Err(fail_pos(format!("depth-{} search answered {} although {} legal moves exist", depth, e, legal.len()), &pos)),
            Err(m) => return Err(fail_pos(format!("depth-{} search ({} threads) panicked: {}", depth, threads, m), &pos)),
        }
        if let Some(d) = snapshot_diff(&before, &after) {
            return Err(fail_pos(format!("a depth-{} search ({} threads) left the caller's board changed: {}", depth, threads, d), &pos));
        }
        Ok(())
    }
}

pub fn c07_checks() -> Vec<Box<dyn DynCheck>> {
    vec![
        Box::new(C07Searches),
        Box::new(FnCheck {
            name: "C07/heavy-context",
            run: run_c07_heavy_context,
            replay: |_| Err("re-run the check".into()),
        }),
        Box::new(DeepBlocked { name: "C07/deep-blocked" }),
        Box::new(DeepMateSearches { name: "C07/deep-mate-searches" }),
    ]
}

// ------------------------------------------------------------------------------ C08

pub const C08_RULE: &str = "(position, depth N, game continuation) with half-move clock 0 so that clock + N + plies < 100: few-piece endgames (2..7 men; 70%) and set-up/reachable middlegames (30%), N in 1..5 (5 for <= 3 men, 4 for <= 4 men, 3 for <= 7 men, else 2), searched through alpha_beta_search or Game::select_alpha_beta_best_move on ONE SearchContext/Game reused along a generated game continuation of 0..6 further searches (engine move every ply, or engine move + generated reply). Oracle: cache-free, pruning-free minimax over the reference legal moves; leaves and no-move nodes valued as the property states: mate score for the side to move when in check without moves (read from evaluate::score on a canonical mated board for that colour and remaining depth), 0 for stalemate, otherwise evaluate::board_material_score of the position rebuilt from scratch. last_score()/alpha_beta_score() must equal minimax(root, N) and minimax(child after the returned move, N-1) must equal it too. In a quarter of the cases the positions of a generated line are searched in reverse order (later position first) with one context; deep mates: overwhelming material v a bare king at depth 5..6. Deep endgames: thousands of 3..5-man endgames at depth 4..5 on a new context, the reference being a cache-free fail-soft alpha-beta over the reference moves (exact at the root with the full window; itself compared with the pruning-free minimax on a sixteenth of the 3-man cases), score and returned move both checked. Plus a complete enumeration of K+P(7th) v K positions (both colours) in which promoting to a queen stalemates, searched at depth 1..2(3). Non-trivial = search with a reused context (prior >= 1), or a tree containing a mate/stalemate inside the horizon; distinct = (root fingerprint, N, prior index).";

struct MateTable {
    white_mated: Vec<i16>,
    black_mated: Vec<i16>,
}

fn mate_table() -> &'static MateTable {
    use std::sync::OnceLock;
    static T: OnceLock<MateTable> = OnceLock::new();
    T.get_or_init(|| MateTable {
        white_mated: (0..=12u8).map(|d| super::pos::mate_score(true, d)).collect(),
        black_mated: (0..=12u8).map(|d| super::pos::mate_score(false, d)).collect(),
    })
}

pub struct MinimaxInfo {
    pub terminal_inside: bool,
    pub nodes: u64,
}

pub fn minimax(pos: &Pos, depth: u8, info: &mut MinimaxInfo) -> i16 {
    info.nodes += 1;
    if depth == 0 {
        if !pos.has_legal_move(pos.side) {
            info.terminal_inside = true;
            return terminal_value(pos, 0);
        }
        return evaluate::board_material_score(&to_board(pos));
    }
    let legal = pos.legal_moves();
    if legal.is_empty() {
        info.terminal_inside = true;
        return terminal_value(pos, depth);
    }
    let maximizing = pos.side == Side::White;
    let mut best = if maximizing { i16::MIN } else { i16::MAX };
    for m in &legal {
        let v = minimax(&pos.make(m), depth - 1, info);
        best = if maximizing { best.max(v) } else { best.min(v) };
    }
    best
}

fn terminal_value(pos: &Pos, depth: u8) -> i16 {
    if pos.in_check(pos.side) {
        let t = mate_table();
        if pos.side == Side::White {
            t.white_mated[depth as usize]
        } else {
            t.black_mated[depth as usize]
        }
    } else {
        0
    }
}

#[derive(Clone, Debug, Serialize, Deserialize)]
pub struct MinimaxCase {
    /// search the positions of the continuation in REVERSE order (a later position first, then
    /// earlier ones, as after taking moves back) with one context; replies are generated for
    /// both sides
    #[serde(default)]
    pub backward: bool,
    pub fen: String,
    pub depth: u8,
    /// one entry per further search: selector of the reply played after the engine's move
    pub replies: Vec<u16>,
    pub every_ply: bool,
    pub via_game: bool,
    pub pool: u8,
}

pub struct C08Searches;

impl C08Searches {
    /// Positions P0, P1, ... along a generated line (one ply apart) are searched from the last
    /// to the first with ONE context and generator.
    fn test_backward(&self, c: &MinimaxCase, start: &Pos, threads: usize, st: &mut Stats) -> TestResult {
        let p = pool(threads);
        let mut line = vec![start.clone()];
        for s in c.replies.iter().take(4) {
            let cur = line.last().unwrap();
            let legal = cur.legal_moves();
            if legal.is_empty() {
                break;
            }
            line.push(cur.make(&gen::select(&legal, *s)));
        }
        let men = start.men();
        let depth = match men {
            0..=3 => c.depth,
            4 => c.depth.min(4),
            5..=7 => c.depth.min(3),
            _ => c.depth.min(2),
        };
        let mut ctx = SearchContext::new(depth);
        let mut g = MoveGenerator::new();
        for (k, pos) in line.iter().enumerate().rev() {
            if !pos.has_legal_move(pos.side) {
                continue;
            }
            let mut info = MinimaxInfo {
                terminal_inside: false,
                nodes: 0,
            };
            let want = minimax(pos, depth, &mut info);
            let mut board = to_board(pos);
            let r = no_panic(|| p.install(|| alpha_beta_search(&mut ctx, &mut board, &mut g)));
            st.count("searches", 1);
            st.evaluations += 1;
            st.label("backward-order-reused-context");
            st.nontrivial(pos.fingerprint() ^ 0xBAC ^ ((depth as u64) << 56), || json!({"fen": pos.fen(), "depth": depth, "searched_after_later_positions": line.len() - 1 - k}));
            let m = match r {
                Ok(Ok(m)) => mv_of(&m),
                Ok(Err(e)) => return Err(fail_pos(format!("search failed: {:?}", e), pos)),
                Err(m) => return Err(fail_pos(format!("search panicked: {}", m), pos)),
            };
            if ctx.last_score() != Some(want) {
                return Err(fail_pos(
                    format!(
                        "searching {} (depth {}) AFTER positions later in the same line with one context reports {:?}, exact minimax is {}",
                        pos.fen(),
                        depth,
                        ctx.last_score(),
                        want
                    ),
                    pos,
                ));
            }
            let mut i2 = MinimaxInfo {
                terminal_inside: false,
                nodes: 0,
            };
            if !pos.legal_moves().contains(&m) || minimax(&pos.make(&m), depth - 1, &mut i2) != want {
                return Err(fail_pos(format!("move {} returned for {} does not attain the minimax value {}", mv_text(&m), pos.fen(), want), pos));
            }
        }
        Ok(())
    }
}

/// Forced mates several moves deep: overwhelming material v a bare king at depth 5..6.
pub struct C08DeepMates;
impl Prop for C08DeepMates {
    type Case = (String, u8);
    fn name(&self) -> &'static str {
        "C08/deep-mates"
    }
    fn max_shrink_iters(&self) -> u32 {
        40
    }
    fn strategy(&self, _tier: Tier) -> BoxedStrategy<(String, u8)> {
        (gen::mating_material(), prop_oneof![1 => Just(5u8), 3 => Just(6u8)]).boxed()
    }
    fn cases(&self, tier: Tier) -> u32 {
        tier.pick(112, 1_200)
    }
    fn test(&self, c: &(String, u8), st: &mut Stats) -> TestResult {
        let pos = Pos::from_fen(&c.0).map_err(Failure::new)?;
        if pos.men() > 4 || !pos.has_legal_move(pos.side) {
            return Ok(());
        }
        let depth = if pos.men() == 4 { c.1 } else { 6 };
        let mut info = MinimaxInfo {
            terminal_inside: false,
            nodes: 0,
        };
        let want = minimax(&pos, depth, &mut info);
        let mut board = to_board(&pos);
        let mut g = MoveGenerator::new();
        let mut ctx = SearchContext::new(depth);
        let r = no_panic(|| pool(4).install(|| alpha_beta_search(&mut ctx, &mut board, &mut g)));
        st.count("reference_nodes", info.nodes);
        if info.terminal_inside {
            st.nontrivial(pos.fingerprint() ^ depth as u64, || json!({"fen": pos.fen(), "depth": depth, "minimax": want}));
        }
        match r {
            Ok(Ok(_)) => {
                if ctx.last_score() != Some(want) {
                    return Err(fail_pos(
                        format!("depth-{} search of {} reports {:?}, exact minimax is {}", depth, pos.fen(), ctx.last_score(), want),
                        &pos,
                    ));
                }
                Ok(())
            }
            Ok(Err(e)) => Err(fail_pos(format!("search failed: {:?}", e), &pos)),
            Err(m) => Err(fail_pos(format!("search panicked: {}", m), &pos)),
        }
    }
}

/// Reference with cut-offs but without any cache: plain fail-soft alpha-beta over the reference
/// legal moves in their generated order. With the full window at the root its value is the exact
/// minimax value; it is cross-checked against the pruning-free `minimax` on a slice of the cases.
pub fn pruned_reference(pos: &Pos, depth: u8, mut alpha: i32, mut beta: i32, nodes: &mut u64) -> i16 {
    *nodes += 1;
    if depth == 0 {
        if !pos.has_legal_move(pos.side) {
            return terminal_value(pos, 0);
        }
        return evaluate::board_material_score(&to_board(pos));
    }
    let legal = pos.legal_moves();
    if legal.is_empty() {
        return terminal_value(pos, depth);
    }
    if pos.side == Side::White {
        let mut best = i16::MIN;
        for m in &legal {
            let v = pruned_reference(&pos.make(m), depth - 1, alpha, beta, nodes);
            best = best.max(v);
            alpha = alpha.max(v as i32);
            if alpha >= beta {
                break;
            }
        }
        best
    } else {
        let mut best = i16::MAX;
        for m in &legal {
            let v = pruned_reference(&pos.make(m), depth - 1, alpha, beta, nodes);
            best = best.min(v);
            beta = beta.min(v as i32);
            if alpha >= beta {
                break;
            }
        }
        best
    }
}

/// Thousands of 3..5-man endgames at depth 4..5 on a brand-new context: the horizon at which
/// the same node is reached with different windows inside one search.
pub struct C08DeepEndgames;
impl Prop for C08DeepEndgames {
    type Case = (String, u8, u8);
    fn name(&self) -> &'static str {
        "C08/deep-endgames"
    }
    fn max_shrink_iters(&self) -> u32 {
        150
    }
    fn strategy(&self, _tier: Tier) -> BoxedStrategy<(String, u8, u8)> {
        let zero = |mut p: Pos| {
            p.half = 0;
            p.fen()
        };
        (
            prop_oneof![
                6 => gen::endgame(1).prop_map(move |r| zero(gen::build(&r))),
                5 => gen::endgame(2).prop_map(move |r| zero(gen::build(&r))),
                3 => gen::endgame(3).prop_map(move |r| zero(gen::build(&r))),
                2 => gen::pawn_race().prop_map(move |r| zero(gen::build(&r))),
            ],
            // depth 7 (three men only): the same node comes back with four plies left
            prop_oneof![4 => Just(4u8), 16 => Just(5u8), 1 => Just(7u8)],
            0u8..6,
        )
            .boxed()
    }
    fn cases(&self, tier: Tier) -> u32 {
        tier.pick(3_200, 48_000)
    }
    fn test(&self, c: &(String, u8, u8), st: &mut Stats) -> TestResult {
        let mut pos = Pos::from_fen(&c.0).map_err(Failure::new)?;
        pos.half = 0;
        if !pos.has_legal_move(pos.side) {
            return Ok(());
        }
        let depth = match pos.men() {
            0..=3 => c.1,
            4 => c.1.min(5),
            5 => c.1.min(4),
            _ => 3,
        };
        let mut nodes = 0u64;
        let want = pruned_reference(&pos, depth, i32::MIN, i32::MAX, &mut nodes);
        st.count("pruned_reference_nodes", nodes);
        if pos.fingerprint() % 16 == 0 && pos.men() <= 3 && depth <= 5 {
            let mut info = MinimaxInfo {
                terminal_inside: false,
                nodes: 0,
            };
            let exact = minimax(&pos, depth, &mut info);
            st.count("pruned_reference_cross_checked_with_full_minimax", 1);
            if exact != want {
                return Err(Failure::new(format!(
                    "HARNESS: the pruned reference gives {} and the pruning-free minimax {} for {} at depth {}",
                    want,
                    exact,
                    pos.fen(),
                    depth
                )));
            }
        }
        let threads = POOL_SIZES[c.2 as usize % POOL_SIZES.len()];
        let mut board = to_board(&pos);
        let mut g = MoveGenerator::new();
        let mut ctx = SearchContext::new(depth);
        let r = no_panic(|| pool(threads).install(|| alpha_beta_search(&mut ctx, &mut board, &mut g)));
        st.label(&format!("depth-{}", depth));
        st.label(&format!("{}-men", pos.men()));
        st.nontrivial(pos.fingerprint() ^ ((depth as u64) << 56), || json!({"fen": pos.fen(), "depth": depth, "threads": threads, "minimax": want}));
        match r {
            Ok(Ok(m)) => {
                if ctx.last_score() != Some(want) {
                    return Err(fail_pos(
                        format!("depth-{} search ({} threads, new context) of {} reports {:?}, exact minimax is {}", depth, threads, pos.fen(), ctx.last_score(), want),
                        &pos,
                    ));
                }
                // the returned move attains the value
                let mv = mv_of(&m);
                let legal = pos.legal_moves();
                let Some(rm) = legal.iter().find(|x| **x == mv) else {
                    return Err(fail_pos(format!("the returned move {} is not legal", mv_text(&mv)), &pos));
                };
                let mut n2 = 0u64;
                let child = pruned_reference(&pos.make(rm), depth - 1, i32::MIN, i32::MAX, &mut n2);
                if child != want {
                    return Err(fail_pos(
                        format!("depth-{} search of {} returned {} whose depth-{} minimax value is {}, the position's value is {}", depth, pos.fen(), mv_text(&mv), depth - 1, child, want),
                        &pos,
                    ));
                }
                Ok(())
            }
            Ok(Err(e)) => Err(fail_pos(format!("search failed: {:?}", e), &pos)),
            Err(m) => Err(fail_pos(format!("search panicked: {}", m), &pos)),
        }
    }
}

impl Prop for C08Searches {
    type Case = MinimaxCase;
    fn name(&self) -> &'static str {
        "C08/searches"
    }
    fn strategy(&self, tier: Tier) -> BoxedStrategy<MinimaxCase> {
        let zero = |mut p: Pos| {
            p.half = 0;
            p.fen()
        };
        let max_depth = tier.pick(4u8, 4u8); // 4 only for <= 4 men, 3 for <= 7 men (see test)
        (
            prop_oneof![
                5 => gen::endgame(5).prop_map(move |r| zero(gen::build(&r))),
                2 => gen::pawn_race().prop_map(move |r| zero(gen::build(&r))),
                1 => gen::cage_theme().prop_map(move |r| zero(gen::build(&r))),
                1 => gen::terminal_biased(),
                1 => gen::pre_terminal(),
                2 => gen::mating_material(),
                // long move lists (more than 64 moves are common): depth is capped at 2 for > 7 men
                1 => gen::tactical_crowd(),
                1 => gen::material_extreme().prop_map(move |r| zero(gen::build(&r))),
                1 => gen::placement(12).prop_map(move |r| zero(gen::build(&r))),
                1 => gen::walk(50).prop_map(move |w| zero(gen::walk_end(&w))),
            ],
            prop_oneof![4 => 1u8..=max_depth, tier.pick(1u32, 3u32) => Just(5u8)],
            prop::collection::vec(any::<u16>(), 0..=6),
            any::<bool>(),
            any::<bool>(),
            0u8..6,
            prop::bool::weighted(0.25),
        )
            .prop_map(|(fen, depth, replies, every_ply, via_game, pool, backward)| MinimaxCase {
                backward,
                fen,
                depth,
                replies,
                every_ply,
                via_game,
                pool,
            })
            .boxed()
    }
    fn cases(&self, tier: Tier) -> u32 {
        tier.pick(640, 16_000)
    }
    fn max_shrink_iters(&self) -> u32 {
        300
    }
    fn test(&self, c: &MinimaxCase, st: &mut Stats) -> TestResult {
        let mut pos = Pos::from_fen(&c.fen).map_err(Failure::new)?;
        pos.half = 0;
        let threads = POOL_SIZES[c.pool as usize % POOL_SIZES.len()];
        let p = pool(threads);
        if c.backward {
            return self.test_backward(c, &pos, threads, st);
        }
        let mut game: Option<Game> = None;
        let mut raw: Option<(Board, MoveGenerator, SearchContext)> = None;
        let searches = c.replies.len() + 1;
        // occurrences of each position along the game: a Game registers them, and a position that
        // has occurred three times is a finished (drawn) game, which the game loops never search
        let mut seen: BTreeMap<u64, u32> = BTreeMap::new();
        *seen.entry(pos.fingerprint()).or_insert(0) += 1;
        for i in 0..searches {
            if seen.get(&pos.fingerprint()).copied().unwrap_or(0) >= 3 {
                break;
            }
            let men = pos.men();
            let depth = match men {
                0..=3 => c.depth,
                4 => c.depth.min(4),
                5..=7 => c.depth.min(3),
                _ => c.depth.min(2),
            };
            if i == 0 {
                if c.via_game {
                    game = Some(Game::from_board(to_board(&pos), depth));
                } else {
                    raw = Some((to_board(&pos), MoveGenerator::new(), SearchContext::new(depth)));
                }
            }
            if !pos.has_legal_move(pos.side) {
                break;
            }
            // the context's depth is fixed when it is created
            let depth = match (&game, &raw) {
                (Some(g), _) => g.search_depth(),
                (_, Some((_, _, ctx))) => ctx.search_depth(),
                _ => depth,
            };
            if (men > 7 && depth > 2) || (men > 4 && depth > 3) || (men > 3 && depth > 4) {
                break;
            }
            let mut info = MinimaxInfo {
                terminal_inside: false,
                nodes: 0,
            };
            let want = minimax(&pos, depth, &mut info);
            let (mv, score) = if let Some(g) = game.as_mut() {
                let r = no_panic(|| p.install(|| g.select_alpha_beta_best_move()));
                match r {
                    Ok(Ok(m)) => (m, g.alpha_beta_score()),
                    Ok(Err(e)) => return Err(fail_pos(format!("search #{} failed: {:?}", i, e), &pos)),
                    Err(m) => return Err(fail_pos(format!("search #{} panicked: {}", i, m), &pos)),
                }
            } else {
                let (b, g, ctx) = raw.as_mut().unwrap();
                let r = no_panic(|| p.install(|| alpha_beta_search(ctx, b, g)));
                match r {
                    Ok(Ok(m)) => (m, ctx.last_score()),
                    Ok(Err(e)) => return Err(fail_pos(format!("search #{} failed: {:?}", i, e), &pos)),
                    Err(m) => return Err(fail_pos(format!("search #{} panicked: {}", i, m), &pos)),
                }
            };
            let m = mv_of(&mv);
            st.count("searches", 1);
            if i >= 1 {
                st.evaluations += 1; // every search of the continuation is compared on its own
            }
            st.count("reference_nodes", info.nodes);
            if i >= 1 {
                st.label("reused-context");
            }
            if info.terminal_inside {
                st.label("terminal-inside-horizon");
            }
            if i >= 1 || info.terminal_inside {
                st.nontrivial(pos.fingerprint() ^ ((depth as u64) << 56) ^ ((i as u64) << 48), || {
                    json!({"fen": pos.fen(), "depth": depth, "prior_searches": i, "via_game": c.via_game, "threads": threads, "minimax": want})
                });
            }
            let detail = |what: String| {
                Failure::new(what).with(json!({"fen": pos.fen(), "depth": depth, "prior_searches": i, "threads": threads}))
            };
            if score != Some(want) {
                return Err(detail(format!(
                    "search #{} (depth {}, {} threads, via_game={}) reports score {:?} but exact depth-{} minimax of {} is {}",
                    i,
                    depth,
                    threads,
                    c.via_game,
                    score,
                    depth,
                    pos.fen(),
                    want
                )));
            }
            let legal = pos.legal_moves();
            if !legal.contains(&m) {
                return Err(detail(format!("search #{} returned {} which is not legal in {}", i, mv_text(&m), pos.fen())));
            }
            let mut info2 = MinimaxInfo {
                terminal_inside: false,
                nodes: 0,
            };
            let child = minimax(&pos.make(&m), depth - 1, &mut info2);
            if child != want {
                return Err(detail(format!(
                    "search #{} returned {} whose depth-{} minimax value {} does not attain the root value {} in {}",
                    i,
                    mv_text(&m),
                    depth - 1,
                    child,
                    want,
                    pos.fen()
                )));
            }
            // continue the game
            if i + 1 == searches {
                break;
            }
            let mut advance = |m: &Mv, pos: &mut Pos| -> TestResult {
                let em = chess_move_of(m);
                if let Some(g) = game.as_mut() {
                    g.apply_chess_move(em).map_err(|e| Failure::new(format!("apply failed: {:?}", e)))?;
                    g.board_mut().toggle_turn();
                } else {
                    let (b, _, _) = raw.as_mut().unwrap();
                    em.apply(b).map_err(|e| Failure::new(format!("apply failed: {:?}", e)))?;
                    b.toggle_turn();
                }
                *pos = pos.make(m);
                *seen.entry(pos.fingerprint()).or_insert(0) += 1;
                Ok(())
            };
            advance(&m, &mut pos)?;
            if !c.every_ply {
                let legal = pos.legal_moves();
                if legal.is_empty() {
                    break;
                }
                let reply = gen::select(&legal, c.replies[i]);
                advance(&reply, &mut pos)?;
            }
            if pos.half + depth as u32 + 2 >= 100 {
                break;
            }
        }
        Ok(())
    }
}

/// Complete enumeration of king + pawn-on-the-seventh v king (both colours) restricted to the
/// positions in which promoting to a queen stalemates: the best move is an under-promotion or
/// a king move, so move ordering / pruning / candidate filtering must not lose it.
fn run_c08_underpromotion(env: &Env, agg: &mut Stats) -> Option<Violation> {
    let name = "C08/underpromotion";
    let mut cases: Vec<Pos> = Vec::new();
    for white in [true, false] {
        let (pr, last): (u8, u8) = if white { (6, 7) } else { (1, 0) };
        let (own, opp) = if white { (Side::White, Side::Black) } else { (Side::Black, Side::White) };
        for pf in 0..8u8 {
            for ok in 0..64u8 {
                for ek in 0..64u8 {
                    let ps = pr * 8 + pf;
                    let target = last * 8 + pf;
                    if ok == ek || ok == ps || ek == ps || ok == target || ek == target {
                        continue;
                    }
                    let mut p = Pos::empty();
                    p.sq[ps as usize] = Some((P::Pawn, own));
                    p.sq[ok as usize] = Some((P::King, own));
                    p.sq[ek as usize] = Some((P::King, opp));
                    p.side = own;
                    if p.consistent().is_err() {
                        continue;
                    }
                    let q = Mv {
                        kind: Kind::Promo,
                        from: ps,
                        to: target,
                        promo: Some(P::Queen),
                        cap: None,
                    };
                    if !p.legal_moves().contains(&q) {
                        continue;
                    }
                    if p.make(&q).is_stalemate() {
                        cases.push(p);
                    }
                }
            }
        }
    }
    // one ply earlier: the defending king steps into such a position (inner-node variant)
    let mut earlier: Vec<Pos> = Vec::new();
    for p in &cases {
        let opp = p.side.other();
        let ek = p.king_sq(opp).unwrap();
        for df in -1i8..=1 {
            for dr in -1i8..=1 {
                if let Some(from) = sq_of(file_of(ek) + df, rank_of(ek) + dr) {
                    if from == ek || p.sq[from as usize].is_some() {
                        continue;
                    }
                    let mut q = p.clone();
                    q.sq[from as usize] = q.sq[ek as usize].take();
                    q.side = opp;
                    if q.consistent().is_ok() && q.legal_moves().iter().any(|m| m.from == from && m.to == ek) {
                        earlier.push(q);
                    }
                }
            }
        }
    }
    earlier.sort_by_key(|p| p.fingerprint());
    earlier.dedup_by_key(|p| p.fingerprint());
    let n_root = cases.len();
    cases.extend(earlier);
    agg.count("queen_promotion_stalemates_root", n_root as u64);
    agg.exhaustive = Some("all K+P(7th) v K positions, both colours, in which promoting to a queen stalemates, and their predecessors by a move of the defending king".into());
    let depths: &[u8] = env.tier.pick(&[1, 2], &[1, 2, 3]);
    let results: Vec<(Stats, Option<(Pos, Failure)>)> = cases
        .par_iter()
        .map(|pos| {
            let mut st = Stats::default();
            for &depth in depths {
                if depth == 1 && pos.legal_moves().iter().all(|m| m.kind != Kind::Promo) {
                    continue; // a predecessor: the promotion is two plies away
                }
                st.eval();
                let mut info = MinimaxInfo {
                    terminal_inside: false,
                    nodes: 0,
                };
                let want = minimax(pos, depth, &mut info);
                let mut board = to_board(pos);
                let mut g = MoveGenerator::new();
                let mut ctx = SearchContext::new(depth);
                let r = no_panic(|| pool(1).install(|| alpha_beta_search(&mut ctx, &mut board, &mut g)));
                let fail = |m: String| Some((pos.clone(), Failure::new(m).with(json!({"fen": pos.fen(), "depth": depth}))));
                match r {
                    Ok(Ok(mv)) => {
                        let m = mv_of(&mv);
                        st.nontrivial(pos.fingerprint() ^ depth as u64, || json!({"fen": pos.fen(), "depth": depth, "minimax": want, "engine_move": mv_text(&m)}));
                        if ctx.last_score() != Some(want) {
                            return (st, fail(format!("depth-{} search of {} reports {:?}, exact minimax is {}", depth, pos.fen(), ctx.last_score(), want)));
                        }
                        let mut i2 = MinimaxInfo {
                            terminal_inside: false,
                            nodes: 0,
                        };
                        let child = minimax(&pos.make(&m), depth - 1, &mut i2);
                        if child != want {
                            return (st, fail(format!("depth-{} search of {} returned {} (value {}) but the minimax value is {}", depth, pos.fen(), mv_text(&m), child, want)));
                        }
                    }
                    Ok(Err(e)) => return (st, fail(format!("search of {} failed: {:?}", pos.fen(), e))),
                    Err(m) => return (st, fail(format!("search of {} panicked: {}", pos.fen(), m))),
                }
            }
            (st, None)
        })
        .collect();
    let mut v = None;
    for (st, f) in results {
        agg.merge(st);
        if v.is_none() {
            if let Some((pos, f)) = f {
                v = Some(violation(name, json!({"fen": pos.fen()}), f));
            }
        }
    }
    agg.count("queen_promotion_stalemates_enumerated", cases.len() as u64);
    v
}

pub fn c08_checks() -> Vec<Box<dyn DynCheck>> {
    vec![
        Box::new(C08Searches),
        Box::new(C08DeepMates),
        Box::new(C08DeepEndgames),
        Box::new(FnCheck {
            name: "C08/underpromotion",
            run: run_c08_underpromotion,
            replay: |_| Err("deterministic enumeration: re-run the check".into()),
        }),
    ]
}

// ------------------------------------------------------------------------------ C10

pub const C10_RULE: &str = "seed positions: the six standard perft positions, special-move-rich hand-made seeds and generated set-ups (castle/ep/promotion themes, placements <= 12 men) x depth 0..3 (4 for the initial position and sparse seeds) x rayon pools of 1..16 threads (all sixteen sizes at depth 1 on the standard positions) x generator state (new; the same call twice on one generator; reused across other seeds; reused across increasing depths exactly as run_count_positions does; asked for attack maps and check verdicts of the very position first): MoveGenerator::count_positions(d) must equal the cumulative reference perft sum_{k=1..d+1} perft(k). Deep endgames: 2..4 men and cage set-ups at the deepest depth (4..9) whose reference tree stays below 200 000 sequences, then up to three plies deeper (below 2.5 million sequences) against the relation count(P, d) = moves(P) + sum of count(successor, d-1) with a new generator per successor. The built `chess count-positions --depth d` binary is run and its 'depth: k, positions: n' lines compared with the same sums. Non-trivial = depth >= 2 and the reference tree contains en passant, castling or promotion, or the generator was reused; distinct = hash of (seed, depth, pool, state).";

pub fn cumulative_perft(pos: &Pos, depth: u8) -> (u64, bool) {
    // returns sum_{k=1..depth+1} perft(k) and whether a special move occurs in the tree
    fn rec(pos: &Pos, remaining: u8, special: &mut bool) -> u64 {
        let legal = pos.legal_moves();
        let mut n = legal.len() as u64;
        if legal.iter().any(|m| m.kind != Kind::Std) {
            *special = true;
        }
        if remaining == 0 {
            return n;
        }
        for m in &legal {
            n += rec(&pos.make(m), remaining - 1, special);
        }
        n
    }
    let legal = pos.legal_moves();
    let mut special = legal.iter().any(|m| m.kind != Kind::Std);
    let mut n = legal.len() as u64;
    if depth > 0 {
        let parts: Vec<(u64, bool)> = legal
            .par_iter()
            .map(|m| {
                let mut s = false;
                let c = rec(&pos.make(m), depth - 1, &mut s);
                (c, s)
            })
            .collect();
        for (c, s) in parts {
            n += c;
            special |= s;
        }
    }
    (n, special)
}

#[derive(Clone, Debug, Serialize, Deserialize)]
pub struct CountCase {
    pub fen: String,
    pub depth: u8,
    pub pool: u8,
    /// 0 new, 1 same call twice, 2 after other seeds, 3 increasing depths,
    /// 4 after attack-map / in-check queries about this very position
    pub state: u8,
}

const COUNT_POOLS: [usize; 16] = [1, 2, 5, 16, 3, 4, 6, 7, 8, 9, 10, 11, 12, 13, 14, 15];

fn count_once(c: &CountCase, st: &mut Stats) -> TestResult {
    count_once_with(c, st, None)
}

/// `known`: (depth, reference count, special move in the tree) computed by the caller.
fn count_once_with(c: &CountCase, st: &mut Stats, known: Option<(u8, u64, bool)>) -> TestResult {
    let pos = Pos::from_fen(&c.fen).map_err(Failure::new)?;
    let threads = COUNT_POOLS[c.pool as usize % COUNT_POOLS.len()];
    let p = pool(threads);
    let side = to_color(pos.side);
    let mut g = MoveGenerator::new();
    let mut calls: Vec<u8> = Vec::new();
    match c.state % 5 {
        4 => {
            let b = to_board(&pos);
            g.get_attack_targets(&b, side);
            g.get_attack_targets(&b, to_color(pos.side.other()));
            chess::evaluate::player_is_in_check(&b, &mut g, side);
            calls.push(c.depth);
        }
        0 => calls.push(c.depth),
        1 => {
            calls.push(c.depth);
            calls.push(c.depth);
        }
        2 => {
            // other seeds first
            for other in [STANDARD[0].1, STANDARD[2].1, gen::EXTRA_SEEDS[0]] {
                let op = Pos::from_fen(other).unwrap();
                let mut ob = to_board(&op);
                p.install(|| g.count_positions(1, &mut ob, to_color(op.side)));
            }
            calls.push(c.depth);
        }
        _ => {
            for d in 0..=c.depth {
                calls.push(d);
            }
        }
    }
    let mut special_any = false;
    for d in calls {
        let mut board = to_board(&pos);
        let before = snapshot(&board);
        let got = match no_panic(|| p.install(|| g.count_positions(d, &mut board, side))) {
            Ok(n) => n as u64,
            Err(m) => return Err(fail_pos(format!("count_positions({}) panicked: {}", d, m), &pos)),
        };
        let (want, special) = match known {
            Some((kd, n, sp)) if kd == d => (n, sp),
            _ => cumulative_perft(&pos, d),
        };
        special_any |= special;
        st.count("count_calls", 1);
        st.count("reference_sequences", want);
        if got != want {
            return Err(fail_pos(
                format!(
                    "count_positions(depth {}) = {} but there are {} legal move sequences of length 1..={} ({} threads, generator state {})",
                    d,
                    got,
                    want,
                    d + 1,
                    threads,
                    c.state % 5
                ),
                &pos,
            ));
        }
        let _ = before;
    }
    if (c.depth >= 2 && special_any) || c.state % 5 != 0 {
        st.nontrivial(fp_of(c), || json!({"fen": pos.fen(), "depth": c.depth, "threads": threads, "generator_state": c.state % 5}));
    }
    Ok(())
}

pub struct C10Generated;
impl Prop for C10Generated {
    type Case = CountCase;
    fn name(&self) -> &'static str {
        "C10/generated"
    }
    fn shards(&self) -> usize {
        4
    }
    fn strategy(&self, _tier: Tier) -> BoxedStrategy<CountCase> {
        (
            prop_oneof![
                2 => gen::castle_theme().prop_map(|r| gen::build(&r).fen()),
                2 => gen::ep_theme().prop_map(|r| gen::build(&r).fen()),
                2 => gen::promo_theme().prop_map(|r| gen::build(&r).fen()),
                2 => gen::placement(10).prop_map(|r| gen::build(&r).fen()),
                1 => gen::pawn_placement().prop_map(|r| gen::build(&r).fen()),
            ],
            0u8..=2,
            0u8..16,
            0u8..5,
        )
            .prop_map(|(fen, depth, pool, state)| CountCase { fen, depth, pool, state })
            .boxed()
    }
    fn cases(&self, tier: Tier) -> u32 {
        tier.pick(480, 4_000)
    }
    fn test(&self, c: &CountCase, st: &mut Stats) -> TestResult {
        count_once(c, st)
    }
}

/// Few men, many plies: the depth is the largest one (up to 8) whose reference tree stays below a
/// node budget, so positions come back inside one subtree with less depth left.
pub struct C10DeepEndgames;
impl Prop for C10DeepEndgames {
    type Case = CountCase;
    fn name(&self) -> &'static str {
        "C10/deep-endgames"
    }
    fn max_shrink_iters(&self) -> u32 {
        40
    }
    fn strategy(&self, _tier: Tier) -> BoxedStrategy<CountCase> {
        (
            prop_oneof![
                3 => gen::endgame(1).prop_map(|r| gen::build(&r).fen()),
                1 => gen::endgame(2).prop_map(|r| gen::build(&r).fen()),
                4 => gen::pawn_race().prop_map(|r| gen::build(&r).fen()),
                1 => gen::cage_theme().prop_map(|r| gen::build(&r).fen()),
            ],
            6u8..=9,
            0u8..16,
            0u8..5,
        )
            .prop_map(|(fen, depth, pool, state)| CountCase { fen, depth, pool, state })
            .boxed()
    }
    fn cases(&self, tier: Tier) -> u32 {
        tier.pick(96, 2_400)
    }
    fn test(&self, c: &CountCase, st: &mut Stats) -> TestResult {
        let pos = Pos::from_fen(&c.fen).map_err(Failure::new)?;
        // deepest depth <= the requested one within the budget (counted on the reference)
        let budget = 200_000u64;
        let mut depth = 0u8;
        let mut known = (0u8, 0u64, false);
        for d in 1..=c.depth {
            // a tree of depth d+1 has at least as many sequences as the last one had leaves
            let (n, sp) = cumulative_perft(&pos, d);
            if n > budget {
                break;
            }
            depth = d;
            known = (d, n, sp);
            if n * 3 > budget {
                break;
            }
        }
        if depth < 4 {
            return Ok(());
        }
        st.label(&format!("depth-{}", depth));
        count_once_with(&CountCase { depth, state: if c.state % 5 == 3 { 0 } else { c.state }, ..c.clone() }, st, Some(known))?;
        // deeper than the reference can afford: the count of a position at depth d is the number
        // of its moves plus the counts of its successors at depth d - 1, each successor counted
        // by a brand-new generator
        let side = to_color(pos.side);
        let threads = COUNT_POOLS[c.pool as usize % COUNT_POOLS.len()];
        let p = pool(threads);
        let legal = pos.legal_moves();
        let mut deepest = depth;
        for d in depth + 1..=c.depth.max(depth + 1).min(9) {
            let mut total = legal.len() as u64;
            for m in &legal {
                let child = pos.make(m);
                let mut cb = to_board(&child);
                let mut cg = MoveGenerator::new();
                total += p.install(|| cg.count_positions(d - 1, &mut cb, to_color(child.side))) as u64;
                if total > 2_500_000 {
                    break;
                }
            }
            if total > 2_500_000 {
                break;
            }
            let mut board = to_board(&pos);
            let mut g = MoveGenerator::new();
            let got = match no_panic(|| p.install(|| g.count_positions(d, &mut board, side))) {
                Ok(n) => n as u64,
                Err(m) => return Err(fail_pos(format!("count_positions({}) panicked: {}", d, m), &pos)),
            };
            st.count("count_calls_checked_against_successor_counts", 1);
            if got != total {
                return Err(fail_pos(
                    format!(
                        "count_positions(depth {}) = {} but the {} moves plus the successors' count_positions(depth {}) (new generator each) add up to {} ({} threads)",
                        d,
                        got,
                        legal.len(),
                        d - 1,
                        total,
                        threads
                    ),
                    &pos,
                ));
            }
            deepest = d;
        }
        st.label(&format!("deepest-{}", deepest));
        st.nontrivial(fp_of(c) ^ 0xDEE9, || json!({"fen": pos.fen(), "reference_depth": depth, "deepest_depth": deepest}));
        Ok(())
    }
}

fn run_c10_standard(env: &Env, agg: &mut Stats) -> Option<Violation> {
    let name = "C10/standard";
    let mut cases: Vec<CountCase> = Vec::new();
    // the README figures: 20, 420, 9322, 206603, 5072212 from the initial position
    cases.push(CountCase {
        fen: STANDARD[0].1.to_string(),
        depth: 4,
        pool: 3,
        state: 3,
    });
    for (i, s) in STANDARD.iter().enumerate().skip(1) {
        cases.push(CountCase {
            fen: s.1.to_string(),
            depth: env.tier.pick(2, 3),
            pool: i as u8,
            state: i as u8,
        });
    }
    for (i, s) in gen::EXTRA_SEEDS.iter().enumerate() {
        cases.push(CountCase {
            fen: s.to_string(),
            depth: env.tier.pick(2, 3),
            pool: i as u8,
            state: (i + 1) as u8,
        });
    }
    for s in super::pos::C02_TREE_SEEDS.iter().take(5) {
        cases.push(CountCase {
            fen: s.to_string(),
            depth: env.tier.pick(3, 4),
            pool: 1,
            state: 0,
        });
    }
    // castling positions counted after attack-map / in-check queries about the position itself
    for fen in [gen::EXTRA_SEEDS[0], gen::EXTRA_SEEDS[1], STANDARD[1].1, STANDARD[3].1] {
        for depth in [0u8, 1] {
            cases.push(CountCase {
                fen: fen.to_string(),
                depth,
                pool: 2,
                state: 4,
            });
        }
    }
    // every pool size 1..=16 at depth 1 (cheap) on the standard positions
    for (i, s) in STANDARD.iter().enumerate() {
        for pool in 0..COUNT_POOLS.len() {
            cases.push(CountCase {
                fen: s.1.to_string(),
                depth: 1,
                pool: pool as u8,
                state: if (i + pool) % 2 == 0 { 0 } else { 1 },
            });
        }
    }
    for c in cases {
        agg.eval();
        let mut st = Stats::default();
        let r = count_once(&c, &mut st);
        agg.merge(st);
        if let Err(f) = r {
            return Some(violation(name, serde_json::to_value(&c).unwrap(), f));
        }
    }
    None
}

fn replay_c10_standard(case: &Value) -> Result<TestResult, String> {
    let c: CountCase = serde_json::from_value(case.clone()).map_err(|e| e.to_string())?;
    let mut st = Stats::default();
    Ok(count_once(&c, &mut st))
}

/// Run the built command-line binary and compare its per-depth lines.
fn run_c10_cli(env: &Env, agg: &mut Stats) -> Option<Violation> {
    let name = "C10/cli";
    let bin = "/verif/target/debug/chess";
    if !std::path::Path::new(bin).exists() {
        eprintln!("INCONCLUSIVE: {} not built", bin);
        std::process::exit(2);
    }
    let depth = env.tier.pick(3u8, 4u8);
    let out = std::process::Command::new(bin)
        .args(["count-positions", "--depth", &depth.to_string()])
        .output();
    let out = match out {
        Ok(o) => o,
        Err(e) => {
            eprintln!("INCONCLUSIVE: cannot run {}: {}", bin, e);
            std::process::exit(2);
        }
    };
    let text = String::from_utf8_lossy(&out.stdout).to_string();
    if !out.status.success() {
        return Some(violation(
            name,
            json!({"depth": depth}),
            Failure::new(format!("`chess count-positions --depth {}` exited with {:?}: {}", depth, out.status.code(), String::from_utf8_lossy(&out.stderr))),
        ));
    }
    let start = Pos::start();
    let mut seen = 0;
    for line in text.lines() {
        // "depth: d, positions: n, positions per second: x"
        if let Some(rest) = line.strip_prefix("depth: ") {
            let parts: Vec<&str> = rest.split(',').collect();
            let d: u8 = match parts.first().and_then(|x| x.trim().parse().ok()) {
                Some(d) => d,
                None => continue,
            };
            let n: u64 = match parts.get(1).and_then(|x| x.trim().strip_prefix("positions: ")).and_then(|x| x.trim().parse().ok()) {
                Some(n) => n,
                None => {
                    eprintln!("INCONCLUSIVE: cannot parse CLI line {:?}", line);
                    std::process::exit(2);
                }
            };
            let (want, _) = cumulative_perft(&start, d);
            agg.eval();
            agg.nontrivial(0xC11 + d as u64, || json!({"cli_line": line, "reference": want}));
            seen += 1;
            if n != want {
                return Some(violation(
                    name,
                    json!({"depth": d}),
                    Failure::new(format!("`chess count-positions` prints {} positions at depth {}, the true number of sequences of length 1..={} is {}", n, d, d + 1, want)),
                ));
            }
        }
    }
    if seen != depth as usize {
        eprintln!("INCONCLUSIVE: expected {} depth lines from the CLI, saw {}:\n{}", depth, seen, text);
        std::process::exit(2);
    }
    None
}

pub fn c10_checks() -> Vec<Box<dyn DynCheck>> {
    vec![
        Box::new(FnCheck {
            name: "C10/standard",
            run: run_c10_standard,
            replay: replay_c10_standard,
        }),
        Box::new(C10Generated),
        Box::new(C10DeepEndgames),
        Box::new(FnCheck {
            name: "C10/cli",
            run: run_c10_cli,
            replay: |_| Err("re-run the check".into()),
        }),
    ]
}
