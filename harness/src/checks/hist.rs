//! History-driven checks: C03 (successor), C04 (undo), C05 (key purity along histories),
//! C12 (representation invariants), C16 (clocks and the fifty-move draw).

use super::util::*;
use crate::bridge::*;
use crate::gen;
use crate::history::*;
use crate::oracle::*;
use crate::ensure;
use crate::runner::*;
use proptest::prelude::*;
use serde_json::json;

fn history_strategy(max_ops: usize, q: u32, n: u32, s: u32, u: u32, p: u32) -> BoxedStrategy<History> {
    (gen::seed_fen(), prop::collection::vec(op_strategy(q, n, s, u, p), 1..=max_ops))
        .prop_map(|(fen, ops)| History { fen, ops })
        .boxed()
}

// ------------------------------------------------------------------------------ C03

pub const C03_RULE: &str = "positions x every legal move: the move is built through the public constructors (StandardChessMove::new, EnPassantChessMove::new, CastleChessMove::castle_*, PawnPromotionChessMove::new) and applied to a from-scratch board; apply must return Ok, leave turn() unchanged, and all 64 squares, castling rights and en-passant target must equal the reference successor. Histories additionally apply moves on one evolving board (deep stacks). Non-trivial move = en passant, castle, promotion, double step, capture of a home rook with its right held, king/home-rook move with rights held, or any move made while an en-passant target was set; distinct = (position fingerprint, move).";

pub struct C03Moves;

fn move_is_special(pos: &Pos, m: &Mv) -> Option<&'static str> {
    match m.kind {
        Kind::Ep => return Some("en-passant"),
        Kind::Castle => return Some("castle"),
        Kind::Promo => {
            return Some(if m.cap.is_some() {
                if matches!(m.to, A1 | H1 | A8 | H8) {
                    "promotion-capture-on-corner"
                } else {
                    "promotion-capture"
                }
            } else {
                "promotion"
            })
        }
        Kind::Std => {}
    }
    let next = pos.make(m);
    if next.ep.is_some() {
        return Some("double-step");
    }
    if next.rights != pos.rights {
        return Some(if m.cap == Some(P::Rook) && matches!(m.to, A1 | H1 | A8 | H8) {
            "home-rook-captured-with-right"
        } else {
            "rights-lost-by-moving"
        });
    }
    if pos.ep.is_some() {
        return Some("ep-target-cleared");
    }
    None
}

impl Prop for C03Moves {
    type Case = String;
    fn name(&self) -> &'static str {
        "C03/moves"
    }
    fn strategy(&self, _tier: Tier) -> BoxedStrategy<String> {
        gen::position()
    }
    fn cases(&self, tier: Tier) -> u32 {
        tier.pick(30_000, 800_000)
    }
    fn test(&self, fen: &String, st: &mut Stats) -> TestResult {
        let pos = Pos::from_fen(fen).map_err(Failure::new)?;
        let base = to_board(&pos);
        for m in pos.legal_moves() {
            let mut b = base.clone();
            let em = chess_move_of(&m);
            st.count("moves_applied", 1);
            st.evaluations += 1; // every (position, move) pair is a comparison of its own
            if let Some(l) = move_is_special(&pos, &m) {
                st.label(l);
                st.nontrivial(pos.fingerprint() ^ fp_of(&m), || json!({"fen": pos.fen(), "move": mv_text(&m), "label": l}));
            }
            let turn = b.turn();
            if let Err(e) = em.apply(&mut b) {
                return Err(fail_pos(format!("apply({}) failed for a legal move: {:?}", mv_text(&m), e), &pos));
            }
            ensure!(b.turn() == turn, "apply({}) changed the turn in {}", mv_text(&m), pos.fen());
            let got = from_board(&b);
            let want = pos.make(&m);
            for s in 0..64 {
                if got.sq[s] != want.sq[s] {
                    return Err(fail_pos(
                        format!(
                            "after {}: square {} holds {:?}, rules say {:?}",
                            mv_text(&m),
                            sq_name(s as u8),
                            got.sq[s],
                            want.sq[s]
                        ),
                        &pos,
                    ));
                }
            }
            if got.rights != want.rights {
                return Err(fail_pos(
                    format!("after {}: rights {:04b}, rules say {:04b} (K k Q q)", mv_text(&m), got.rights, want.rights),
                    &pos,
                ));
            }
            if got.ep != want.ep {
                return Err(fail_pos(
                    format!("after {}: ep target {:?}, rules say {:?}", mv_text(&m), got.ep.map(sq_name), want.ep.map(sq_name)),
                    &pos,
                ));
            }
            // the engine's generated move object must carry the same capture as what disappears
        }
        Ok(())
    }
}

macro_rules! history_prop {
    ($ty:ident, $name:expr, $which:expr, $strategy:expr, $quick:expr, $thorough:expr, $nontrivial:expr) => {
        pub struct $ty;
        impl Prop for $ty {
            type Case = History;
            fn name(&self) -> &'static str {
                $name
            }
            fn strategy(&self, _tier: Tier) -> BoxedStrategy<History> {
                $strategy
            }
            fn cases(&self, tier: Tier) -> u32 {
                tier.pick($quick, $thorough)
            }
            fn test(&self, h: &History, st: &mut Stats) -> TestResult {
                let it = run_history(h, $which, st)?;
                for l in &it.saw {
                    st.label(l);
                }
                let f: fn(&Interp) -> bool = $nontrivial;
                if f(&it) {
                    st.nontrivial(fp_of(h), || describe(h));
                }
                Ok(())
            }
        }
    };
}

fn special_seen(it: &Interp) -> bool {
    it.saw.iter().any(|l| {
        matches!(
            *l,
            "castle" | "en-passant" | "promotion" | "promotion-capture" | "home-rook-captured-with-right"
        )
    })
}

history_prop!(
    C03Histories,
    "C03/histories",
    Which {
        successor: true,
        engine_moves: true,
        ..Which::default()
    },
    history_strategy(80, 0, 3, 8, 2, 0),
    16_000,
    80_000,
    special_seen
);

// ------------------------------------------------------------------------------ C04

pub const C04_RULE: &str = "histories of Move/Quiet/Noisy/Special/Undo/Unwind/Probe operations (up to 320 ops) interpreted on one engine board in lock-step with the reference; every position is registered (count_current_position) after its move and unregistered before the undo; a full observable snapshot (64 squares, 12 piece bitboards, occupancy summaries, turn, rights, ep, half-move clock, move counter, key, max_seen_position_count) is taken before every apply and compared after the matching undo, for single undos, unwinds of k plies and the final full unwind; probes take the snapshot around generate_moves, annotated generation, notation enumeration, game_ending, count_positions and alpha_beta_search. Deep mate searches: depth 5..6 searches of positions of at most four men with a mate close by (mate in one at the root in some), snapshot - turn included - identical afterwards. Non-trivial = history reaches nesting depth >= 8 and contains a castle, en passant, promotion(-capture) or capture of a home rook with its right; distinct = hash of the op sequence.";

history_prop!(
    C04Histories,
    "C04/histories",
    Which {
        undo: true,
        register: true,
        probes: true,
        ..Which::default()
    },
    history_strategy(320, 2, 3, 6, 3, 1),
    4_000,
    100_000,
    |it: &Interp| special_seen(it) && it.max_depth >= 8
);

history_prop!(
    C04EngineMoves,
    "C04/engine-move-objects",
    Which {
        undo: true,
        register: true,
        engine_moves: true,
        ..Which::default()
    },
    history_strategy(60, 1, 3, 8, 4, 0),
    8_000,
    40_000,
    |it: &Interp| special_seen(it) && it.max_depth >= 4
);

// long, mostly quiet games: stacks more than a hundred plies deep before the unwinding starts
history_prop!(
    C04LongGames,
    "C04/long-games",
    Which {
        undo: true,
        register: false,
        ..Which::default()
    },
    (
        prop_oneof![
            3 => gen::endgame(4).prop_map(|r| gen::build(&r).fen()),
            2 => gen::seed_fen(),
            1 => gen::placement(10).prop_map(|r| gen::build(&r).fen()),
        ],
        prop_oneof![
            3 => prop::collection::vec(op_strategy(60, 2, 1, 1, 0), 100..420),
            1 => prop::collection::vec(op_strategy(30, 6, 2, 3, 0), 40..300),
            // games of 500..900 plies before the unwinding starts
            1 => prop::collection::vec(op_strategy(14, 5, 2, 0, 0), 520..900),
        ]
    )
        .prop_map(|(fen, ops)| History { fen, ops })
        .boxed(),
    4_000,
    25_000,
    |it: &Interp| it.max_depth >= 100 && it.max_quiet_stretch >= 50
);

history_prop!(
    C03LongGames,
    "C03/long-games",
    Which {
        successor: true,
        ..Which::default()
    },
    (
        prop_oneof![2 => gen::seed_fen(), 1 => gen::pawn_placement().prop_map(|r| gen::build(&r).fen())],
        prop_oneof![
            2 => prop::collection::vec(op_strategy(20, 6, 4, 0, 0), 260..420),
            1 => prop::collection::vec(op_strategy(14, 5, 2, 0, 0), 520..900),
        ]
    )
        .prop_map(|(fen, ops)| History { fen, ops })
        .boxed(),
    2_000,
    10_000,
    |it: &Interp| it.max_depth >= 256
);

/// Marathon games: 1030..1300 quiet-biased plies from the initial position (the interpreter
/// forces a pawn move or capture before the clock would pass what a legal game allows).
fn marathon() -> BoxedStrategy<History> {
    prop::collection::vec(
        prop_oneof![
            12 => any::<u16>().prop_map(Op::Quiet),
            1 => any::<u16>().prop_map(Op::Special),
        ],
        1030..1300,
    )
    .prop_map(|ops| History {
        fen: STANDARD[0].1.to_string(),
        ops,
    })
    .boxed()
}

history_prop!(
    C03Marathon,
    "C03/marathon",
    Which {
        successor: true,
        ..Which::default()
    },
    marathon(),
    160,
    3_000,
    |it: &Interp| it.max_depth >= 1024
);

history_prop!(
    C04Marathon,
    "C04/marathon",
    Which {
        undo: true,
        ..Which::default()
    },
    marathon(),
    160,
    3_000,
    |it: &Interp| it.max_depth >= 1024
);

history_prop!(
    C05Marathon,
    "C05/marathon",
    Which {
        key: true,
        ..Which::default()
    },
    marathon(),
    160,
    3_000,
    |it: &Interp| it.max_depth >= 1024
);

history_prop!(
    C12Marathon,
    "C12/marathon",
    Which {
        invariants: true,
        ..Which::default()
    },
    marathon(),
    160,
    3_000,
    |it: &Interp| it.max_depth >= 1024
);

history_prop!(
    C16Marathon,
    "C16/marathon",
    Which {
        clocks: true,
        ..Which::default()
    },
    marathon(),
    160,
    3_000,
    |it: &Interp| it.max_depth >= 1024
);

// ------------------------------------------------------------------------------ C05 (history part)

history_prop!(
    C05Histories,
    "C05/histories",
    Which {
        key: true,
        ..Which::default()
    },
    history_strategy(120, 1, 4, 8, 3, 0),
    40_000,
    200_000,
    |it: &Interp| {
        it.saw.iter().any(|l| matches!(*l, "ep-target-expired" | "rights-lost-by-moving" | "home-rook-captured-with-right" | "castle" | "en-passant"))
            && it.saw.contains(&"double-step")
    }
);

// ------------------------------------------------------------------------------ C12

pub const C12_RULE: &str = "every state visited by generated move/undo histories (up to 300 ops, special-move biased, engine-generated move objects in one family and constructor-built ones in the other) from set-up and reachable seeds: after every apply and every undo the validity predicate is evaluated over public accessors only: 12 piece bitboards pairwise disjoint; colour occupancy == union of its boards; whole-board occupancy == union of colours; get(sq) agrees with the boards on all 64 squares; exactly one king a side; no pawn on rank 1/8; each held right has king and rook at home; rights never gain a bit along a game; a non-empty ep target is one square on rank 3/6, empty, with the just-advanced pawn directly in front and the square behind empty. Non-trivial = history contains a castle, en passant, promotion, capture of a home rook or an undo of one of these; distinct = hash of the op sequence. Transient states inside the engine's own generation/search are not observable and not claimed.";

history_prop!(
    C12Histories,
    "C12/histories",
    Which {
        invariants: true,
        ..Which::default()
    },
    history_strategy(300, 2, 3, 6, 3, 0),
    24_000,
    120_000,
    special_seen
);

history_prop!(
    C12EngineMoves,
    "C12/engine-move-objects",
    Which {
        invariants: true,
        engine_moves: true,
        ..Which::default()
    },
    history_strategy(80, 1, 3, 8, 3, 0),
    8_000,
    40_000,
    special_seen
);

history_prop!(
    C12LongGames,
    "C12/long-games",
    Which {
        invariants: true,
        ..Which::default()
    },
    (
        prop_oneof![
            2 => gen::seed_fen(),
            2 => gen::pawn_placement().prop_map(|r| gen::build(&r).fen()),
            1 => gen::endgame(4).prop_map(|r| gen::build(&r).fen()),
        ],
        prop_oneof![
            3 => prop::collection::vec(op_strategy(20, 6, 4, 1, 0), 140..400),
            1 => prop::collection::vec(op_strategy(14, 5, 2, 0, 0), 520..900),
        ],
    )
        .prop_map(|(fen, ops)| History { fen, ops })
        .boxed(),
    3_000,
    15_000,
    |it: &Interp| it.max_depth >= 128
);

/// Driven by the ENGINE's own move lists (no reference involved): whatever the generator
/// emits is applied, so a malformed generated move shows up as a broken invariant.
#[derive(Clone, Debug, serde::Serialize, serde::Deserialize)]
pub struct EngineWalk {
    pub fen: String,
    /// (selector into the engine's list, undo instead of moving)
    pub steps: Vec<(u16, bool)>,
}

pub struct C12EngineDriven;
impl Prop for C12EngineDriven {
    type Case = EngineWalk;
    fn name(&self) -> &'static str {
        "C12/engine-driven"
    }
    fn strategy(&self, _tier: Tier) -> BoxedStrategy<EngineWalk> {
        (
            prop_oneof![
                3 => gen::seed_fen(),
                3 => gen::promo_theme().prop_map(|r| gen::build(&r).fen()),
                2 => gen::ep_theme().prop_map(|r| gen::build(&r).fen()),
                2 => gen::castle_theme().prop_map(|r| gen::build(&r).fen()),
                1 => gen::pawn_placement().prop_map(|r| gen::build(&r).fen()),
            ],
            prop::collection::vec((any::<u16>(), prop::bool::weighted(0.2)), 1..60),
        )
            .prop_map(|(fen, steps)| EngineWalk { fen, steps })
            .boxed()
    }
    fn cases(&self, tier: Tier) -> u32 {
        tier.pick(12_000, 80_000)
    }
    fn test(&self, w: &EngineWalk, st: &mut Stats) -> TestResult {
        use chess::move_generator::MoveGenerator;
        let seed = Pos::from_fen(&w.fen).map_err(Failure::new)?;
        let mut board = to_board(&seed);
        let mut g = MoveGenerator::new();
        let mut stack: Vec<chess::chess_move::chess_move::ChessMove> = Vec::new();
        let mut special = false;
        let mut trail: Vec<String> = Vec::new();
        let describe = |trail: &Vec<String>| json!({"seed": w.fen, "moves": trail.join(" ")});
        for (sel, undo) in &w.steps {
            if *undo {
                if let Some(m) = stack.pop() {
                    board.toggle_turn();
                    if let Err(e) = m.undo(&mut board) {
                        return Err(Failure::new(format!("undo of the engine-generated move {} failed: {:?}", mv_text(&mv_of(&m)), e)).with(describe(&trail)));
                    }
                    trail.push("undo".into());
                    if let Err(e) = check_invariants(&board) {
                        return Err(Failure::new(format!("after undoing {}: {}", mv_text(&mv_of(&m)), e)).with(describe(&trail)));
                    }
                }
                continue;
            }
            let turn = board.turn();
            let list = g.generate_moves(&mut board, turn);
            if list.is_empty() {
                break;
            }
            // bias: a move that captures a king, else (every other step) a special move
            let king_capture = list.iter().position(|x| x.captures().map(|c| from_piece(c.0)) == Some(P::King));
            let specials: Vec<usize> = (0..list.len()).filter(|i| mv_of(&list[*i]).kind != Kind::Std).collect();
            let idx = match king_capture {
                Some(i) => i,
                None if !specials.is_empty() && sel & 1 == 1 => specials[(*sel as usize * specials.len()) >> 16],
                None => (*sel as usize * list.len()) >> 16,
            };
            let m = list[idx].clone();
            let t = mv_of(&m);
            if t.kind != Kind::Std {
                special = true;
            }
            if let Err(e) = m.apply(&mut board) {
                return Err(Failure::new(format!("the engine-generated move {} failed to apply: {:?}", mv_text(&t), e)).with(describe(&trail)));
            }
            board.toggle_turn();
            trail.push(mv_text(&t));
            stack.push(m);
            st.count("states", 1);
            if let Err(e) = check_invariants(&board) {
                return Err(Failure::new(format!("after the engine-generated move {}: {}", mv_text(&t), e)).with(describe(&trail)));
            }
        }
        if special {
            st.nontrivial(fp_of(w), || describe(&trail));
        }
        Ok(())
    }
}

// ------------------------------------------------------------------------------ C16

pub const C16_RULE: &str = "reference-tracked games of up to 420 operations through ChessMove::apply/undo from set-up and reachable seeds (seed clocks 0..39), with a quiet-move-biased policy producing capture-free, pawn-move-free stretches up to the 150 plies a legal game allows, interleaved with pawn moves, captures, en passant, castling and promotions, and undo segments; after every apply and undo halfmove_clock() must equal the reference plies-since-capture-or-pawn-move and fullmove_clock() must equal 1 + plies made (compared as u64), no call may panic (overflow checks are on); evaluate::game_ending on every non-terminal node (no repetition registered) must be Draw iff the reference clock >= 100. Game API: games played by coordinate pairs through Game (seed clocks 0..89): Game::fullmove_clock() and the board's half-move clock against the reference after every move, check_game_over_for_current_turn() Draw iff the clock has reached 100 (repetition-free prefix). Non-trivial = game has a quiet stretch >= 20 with a pawn move ending it, or crosses ply 255/256, or reaches clock >= 50; distinct = hash of the op sequence.";

history_prop!(
    C16Games,
    "C16/games",
    Which {
        clocks: true,
        draw: true,
        ..Which::default()
    },
    (
        prop_oneof![
            3 => gen::seed_fen(),
            3 => gen::endgame(4).prop_map(|r| gen::build(&r).fen()),
            2 => gen::placement(10).prop_map(|r| gen::build(&r).fen()),
        ],
        prop_oneof![
            // long mostly-quiet games
            3 => prop::collection::vec(op_strategy(60, 2, 1, 1, 0), 100..420),
            // very long games (more than 512 plies before the unwinding starts)
            1 => prop::collection::vec(op_strategy(14, 5, 2, 0, 0), 520..900),
            // stretches interrupted by pawn moves and captures
            2 => prop::collection::vec(op_strategy(30, 6, 2, 2, 0), 40..300),
            1 => prop::collection::vec(op_strategy(4, 4, 4, 3, 0), 1..120),
        ]
    )
        .prop_map(|(fen, ops)| History { fen, ops })
        .boxed(),
    12_000,
    50_000,
    |it: &Interp| {
        (it.max_quiet_stretch >= 20 && it.pawn_move_inside_stretch)
            || it.saw.contains(&"ply-255/256")
            || it.saw.contains(&"clock 50..99")
            || it.saw.contains(&"clock>=100")
    }
);
