//! Position-driven checks: C02 (query independence), C06 (verdicts and annotations),
//! C13 (algebraic notation), C18 (evaluation laws), C19 (coordinate text).

use super::util::*;
use crate::bridge::*;
use crate::ensure;
use crate::gen;
use crate::history::{choose, Op};
use crate::oracle::notation;
use crate::oracle::*;
use crate::runner::*;
use chess::board::Board;
use chess::chess_move::chess_move_effect::ChessMoveEffect;
use chess::evaluate::{self, GameEnding};
use chess::game::game::Game;
use chess::move_generator::MoveGenerator;
use proptest::prelude::*;
use rayon::prelude::*;
use serde::{Deserialize, Serialize};
use serde_json::{json, Value};
use std::collections::{BTreeMap, BTreeSet};

// ------------------------------------------------------------------------------ C02

pub const C02_RULE: &str = "query histories on ONE long-lived MoveGenerator: operations Move/Special/Undo/Unwind/QueryMoves/QueryMovesOther (the side not to move, where the flipped position is consistent)/QueryAttacks/Transpose/Excursion (a quiet piece move by each side and back, so the placement recurs with fewer rights or without the ep target); in 30% of the histories board.turn() is never updated, as in count_positions (perft style); (undo the last four plies and replay them in a commuted order that reaches the same placement, so that which ply made the double step / lost the right differs between paths), on one engine board evolved by apply/undo; every move query is compared with the reference legal set and (every query on a position whose placement was already queried in a different state, and a slice of the others) with a brand-new generator on a from-scratch copy; every attack query with a brand-new generator on a from-scratch copy. Tree walks visit all nodes to a fixed depth in perft order on one generator and compare every node's answer with the reference. Non-trivial = the history queried one placement in two different (rights, ep) states, or a query was served from the cache after a transposition/undo detour; distinct = hash of the op sequence (histories) or position fingerprint (tree nodes).";

#[derive(Clone, Debug, Serialize, Deserialize)]
pub enum QOp {
    Step(Op),
    QueryMoves,
    /// moves of the side NOT to move (as perft and move annotation ask), only where the
    /// colour-flipped position is a consistent one (no ep target, mover not in check)
    QueryMovesOther,
    QueryAttacks(bool),
    Transpose(u8),
    /// out-and-back: a quiet piece move by each side, then both moves reversed - the placement
    /// recurs, possibly with fewer castling rights and without the en-passant target
    Excursion(u16, u16),
}

#[derive(Clone, Debug, Serialize, Deserialize)]
pub struct QHistory {
    pub fen: String,
    pub ops: Vec<QOp>,
    /// drive the board like count_positions does: the colour alternates in the queries but
    /// board.turn() is never updated
    #[serde(default)]
    pub perft_style: bool,
}

pub struct C02Histories;

struct QState {
    board: Board,
    cur: Pos,
    stack: Vec<(Pos, Mv)>,
    gen: MoveGenerator,
    /// placement fingerprint -> full fingerprints queried
    seen: BTreeMap<u64, BTreeSet<u64>>,
    confusable: bool,
    hit_after_detour: bool,
    detour: bool,
    queries: u64,
    perft_style: bool,
}

fn placement_fp(p: &Pos) -> u64 {
    let mut q = p.clone();
    q.rights = 0;
    q.ep = None;
    q.fingerprint()
}

impl QState {
    fn play(&mut self, m: &Mv) -> TestResult {
        let em = chess_move_of(m);
        em.apply(&mut self.board)
            .map_err(|e| fail_pos(format!("apply({}) failed: {:?}", mv_text(m), e), &self.cur))?;
        if !self.perft_style {
            self.board.toggle_turn();
        }
        let next = self.cur.make(m);
        self.stack.push((std::mem::replace(&mut self.cur, next), *m));
        Ok(())
    }
    fn unplay(&mut self) -> TestResult {
        if let Some((prev, m)) = self.stack.pop() {
            if !self.perft_style {
                self.board.toggle_turn();
            }
            chess_move_of(&m)
                .undo(&mut self.board)
                .map_err(|e| fail_pos(format!("undo({}) failed: {:?}", mv_text(&m), e), &prev))?;
            self.cur = prev;
            self.detour = true;
        }
        Ok(())
    }
    fn query_moves(&mut self, force_fresh: bool) -> TestResult {
        self.queries += 1;
        let pfp = placement_fp(&self.cur);
        let ffp = self.cur.fingerprint();
        let set = self.seen.entry(pfp).or_default();
        let seen_other_state = set.iter().any(|x| *x != ffp);
        set.insert(ffp);
        if seen_other_state {
            self.confusable = true;
        }
        let hits_before = self.gen.cache_hit_count();
        let side = self.cur.side;
        let got = engine_moves(&mut self.gen, &mut self.board, side);
        if self.gen.cache_hit_count() > hits_before && self.detour {
            self.hit_after_detour = true;
        }
        let reference = self.cur.legal_moves();
        if let Err(e) = compare_moves(&got, &reference) {
            return Err(fail_pos(
                format!(
                    "long-lived generator (query #{}) answers differently from the rules: {}",
                    self.queries, e
                ),
                &self.cur,
            ));
        }
        if seen_other_state || force_fresh {
            let mut fresh_board = to_board(&self.cur);
            let mut fresh = MoveGenerator::new();
            let want = engine_moves(&mut fresh, &mut fresh_board, side);
            if let Err(e) = compare_moves(&got, &want) {
                return Err(fail_pos(
                    format!("long-lived generator differs from a brand-new one: {}", e),
                    &self.cur,
                ));
            }
        }
        Ok(())
    }
    fn query_moves_other(&mut self) -> TestResult {
        if self.cur.ep.is_some() || self.cur.in_check(self.cur.side) {
            return Ok(());
        }
        let mut flipped = self.cur.clone();
        flipped.side = self.cur.side.other();
        if flipped.consistent().is_err() {
            return Ok(());
        }
        self.queries += 1;
        let side = flipped.side;
        let got = engine_moves(&mut self.gen, &mut self.board, side);
        let reference = flipped.legal_moves();
        if let Err(e) = compare_moves(&got, &reference) {
            return Err(fail_pos(
                format!(
                    "long-lived generator asked for the moves of {:?} (the side not to move, query #{}) answers differently from the rules: {}",
                    side, self.queries, e
                ),
                &flipped,
            ));
        }
        Ok(())
    }

    fn query_attacks(&mut self, mover: bool) -> TestResult {
        // the engine itself asks for the opponent's attack map (check test) and, when
        // annotating moves, for the mover's
        let side = if mover { self.cur.side } else { self.cur.side.other() };
        self.queries += 1;
        let got = self.gen.get_attack_targets(&self.board, to_color(side));
        let fresh_board = to_board(&self.cur);
        let mut fresh = MoveGenerator::new();
        let want = fresh.get_attack_targets(&fresh_board, to_color(side));
        if got != want {
            return Err(fail_pos(
                format!(
                    "attack map of {:?} from the long-lived generator {:#018x} differs from a brand-new generator's {:#018x}",
                    side, got.0, want.0
                ),
                &self.cur,
            ));
        }
        Ok(())
    }
    fn excursion(&mut self, s1: u16, s2: u16) -> TestResult {
        let mut out: Vec<Mv> = Vec::new();
        for (i, sel) in [s1, s2].iter().enumerate() {
            let legal = self.cur.legal_moves();
            let quiet: Vec<Mv> = legal
                .iter()
                .filter(|m| m.kind == Kind::Std && m.cap.is_none() && self.cur.sq[m.from as usize].map(|x| x.0) != Some(P::Pawn))
                .cloned()
                .collect();
            // prefer king / home-rook excursions while rights are held
            let heavy: Vec<Mv> = quiet
                .iter()
                .filter(|m| self.cur.rights != 0 && matches!(m.from, A1 | H1 | A8 | H8 | E1 | E8))
                .cloned()
                .collect();
            let pool = if !heavy.is_empty() && (sel & 1 == 0 || i == 0) { &heavy } else { &quiet };
            if pool.is_empty() {
                return Ok(());
            }
            let m = gen::select(pool, *sel);
            self.play(&m)?;
            out.push(m);
        }
        for m in out {
            let legal = self.cur.legal_moves();
            match legal.iter().find(|x| x.from == m.to && x.to == m.from && x.cap.is_none() && x.kind == Kind::Std) {
                Some(back) => {
                    let back = *back;
                    self.play(&back)?;
                }
                None => return Ok(()),
            }
        }
        self.detour = true;
        self.query_moves(false)
    }

    /// Undo the last four plies and replay them in a commuted order reaching the same placement.
    fn transpose(&mut self, variant: u8) -> TestResult {
        if self.stack.len() < 4 {
            return Ok(());
        }
        let n = self.stack.len();
        let ms: Vec<Mv> = self.stack[n - 4..].iter().map(|x| x.1).collect();
        let target = self.cur.clone();
        for _ in 0..4 {
            self.unplay()?;
        }
        let orders: [[usize; 4]; 3] = [[2, 1, 0, 3], [0, 3, 2, 1], [2, 3, 0, 1]];
        let mut chosen: Vec<Mv> = ms.clone();
        for k in 0..3 {
            let order = orders[(variant as usize + k) % 3];
            let mut p = self.cur.clone();
            let mut seq = Vec::new();
            let mut ok = true;
            for &i in &order {
                let want = ms[i];
                // the same from/to/kind must be legal here (captured piece may not differ)
                match p.legal_moves().into_iter().find(|m| *m == want) {
                    Some(m) => {
                        p = p.make(&m);
                        seq.push(m);
                    }
                    None => {
                        ok = false;
                        break;
                    }
                }
            }
            if ok && p.sq == target.sq && p.side == target.side {
                chosen = seq;
                break;
            }
        }
        for m in chosen {
            self.play(&m)?;
            self.query_moves(false)?;
        }
        Ok(())
    }
}

impl Prop for C02Histories {
    type Case = QHistory;
    fn name(&self) -> &'static str {
        "C02/histories"
    }
    fn strategy(&self, _tier: Tier) -> BoxedStrategy<QHistory> {
        let op = prop_oneof![
            8 => any::<u16>().prop_map(|s| QOp::Step(Op::Move(s))),
            8 => any::<u16>().prop_map(|s| QOp::Step(Op::Special(s))),
            4 => any::<u16>().prop_map(|s| QOp::Step(Op::Noisy(s))),
            4 => Just(QOp::Step(Op::Undo)),
            1 => (1u8..6).prop_map(|k| QOp::Step(Op::Unwind(k))),
            8 => Just(QOp::QueryMoves),
            3 => Just(QOp::QueryMovesOther),
            3 => any::<bool>().prop_map(QOp::QueryAttacks),
            5 => (0u8..3).prop_map(QOp::Transpose),
            4 => (any::<u16>(), any::<u16>()).prop_map(|(a, b)| QOp::Excursion(a, b)),
        ];
        (
            prop_oneof![
                3 => gen::seed_fen(),
                3 => gen::pawn_placement().prop_map(|r| gen::build(&r).fen()),
                2 => gen::castle_theme().prop_map(|r| gen::build(&r).fen()),
            ],
            prop::collection::vec(op, 4..70),
            prop::bool::weighted(0.3),
        )
            .prop_map(|(fen, ops, perft_style)| QHistory { fen, ops, perft_style })
            .boxed()
    }
    fn cases(&self, tier: Tier) -> u32 {
        tier.pick(8_000, 60_000)
    }
    fn test(&self, h: &QHistory, st: &mut Stats) -> TestResult {
        let seed = Pos::from_fen(&h.fen).map_err(Failure::new)?;
        let mut q = QState {
            board: to_board(&seed),
            cur: seed,
            stack: vec![],
            gen: MoveGenerator::new(),
            seen: BTreeMap::new(),
            confusable: false,
            hit_after_detour: false,
            detour: false,
            queries: 0,
            perft_style: h.perft_style,
        };
        let mut fresh_budget = 3;
        for op in &h.ops {
            match op {
                QOp::Step(Op::Undo) => q.unplay()?,
                QOp::Step(Op::Unwind(k)) => {
                    for _ in 0..*k {
                        q.unplay()?;
                    }
                }
                QOp::Step(o) => {
                    let legal = q.cur.legal_moves();
                    if let Some(m) = choose(&q.cur, &legal, o) {
                        q.play(&m)?;
                    }
                }
                QOp::QueryMoves => {
                    let f = fresh_budget > 0;
                    if f {
                        fresh_budget -= 1;
                    }
                    q.query_moves(f)?
                }
                QOp::QueryMovesOther => q.query_moves_other()?,
                QOp::QueryAttacks(m) => q.query_attacks(*m)?,
                QOp::Transpose(v) => q.transpose(*v)?,
                QOp::Excursion(a, b) => {
                    // the placement about to recur is queried first
                    q.query_moves(false)?;
                    q.excursion(*a, *b)?
                }
            }
        }
        // final query as the property states it
        q.query_moves(true)?;
        st.count("queries", q.queries);
        if q.confusable {
            st.label("same-placement-different-state");
        }
        if q.hit_after_detour {
            st.label("cache-hit-after-detour");
        }
        if q.confusable || q.hit_after_detour {
            st.nontrivial(fp_of(h), || json!({"seed": h.fen, "ops": format!("{:?}", &h.ops[..h.ops.len().min(14)])}));
        }
        Ok(())
    }
}

/// Seeds in which two move orders reach one placement with different en-passant / rights state
/// within three plies (regression inputs for the stale-key family of defects).
pub const C02_TREE_SEEDS: [&str; 6] = [
    "4k3/1p5p/8/P7/8/8/8/4K3 b - - 0 1",
    "4k3/8/8/8/p7/8/1P5P/4K3 w - - 0 1",
    "r3k2r/1p5p/8/P6P/p6p/8/1P5P/R3K2R w KQkq - 0 1",
    "r3k2r/8/8/8/8/8/8/R3K2R w KQkq - 0 1",
    "4k3/p1p1p1p1/8/1P1P1P1P/1p1p1p1p/8/P1P1P1P1/4K3 w - - 0 1",
    "rnbqkbnr/pppppppp/8/8/8/8/PPPPPPPP/RNBQKBNR w KQkq - 0 1",
];

fn tree_walk(
    board: &mut Board,
    pos: &Pos,
    g: &mut MoveGenerator,
    depth: u32,
    st: &mut Stats,
    seen: &mut BTreeMap<u64, u64>,
) -> TestResult {
    st.eval();
    let hits = g.cache_hit_count();
    let got = engine_moves(g, board, pos.side);
    let reference = pos.legal_moves();
    let pfp = placement_fp(pos);
    let ffp = pos.fingerprint();
    let other = seen.get(&pfp).map(|x| *x != ffp).unwrap_or(false);
    seen.insert(pfp, ffp);
    if other || g.cache_hit_count() > hits {
        st.nontrivial(ffp, || json!({"fen": pos.fen(), "cache_hit": g.cache_hit_count() > hits, "same_placement_other_state_seen": other}));
    }
    if let Err(e) = compare_moves(&got, &reference) {
        return Err(fail_pos(
            format!("generator reused along a tree walk answers differently from the rules: {}", e),
            pos,
        ));
    }
    if depth == 0 {
        return Ok(());
    }
    for m in reference {
        let em = chess_move_of(&m);
        em.apply(board).map_err(|e| fail_pos(format!("apply failed: {:?}", e), pos))?;
        board.toggle_turn();
        let r = tree_walk(board, &pos.make(&m), g, depth - 1, st, seen);
        board.toggle_turn();
        em.undo(board).map_err(|e| fail_pos(format!("undo failed: {:?}", e), pos))?;
        r?;
    }
    Ok(())
}

fn run_c02_tree(env: &Env, agg: &mut Stats) -> Option<Violation> {
    let mut seeds: Vec<(String, u32)> = C02_TREE_SEEDS.iter().map(|s| (s.to_string(), 3)).collect();
    // the README figure: depth 4 from the initial position on one generator
    seeds.push((C02_TREE_SEEDS[5].to_string(), 4));
    for s in gen::standard_fens().into_iter().skip(1) {
        seeds.push((s, env.tier.pick(2, 3)));
    }
    for s in gen::EXTRA_SEEDS {
        seeds.push((s.to_string(), env.tier.pick(2, 3)));
    }
    let results: Vec<(Stats, Option<(String, Failure)>)> = seeds
        .par_iter()
        .map(|(fen, depth)| {
            let pos = Pos::from_fen(fen).unwrap();
            let mut st = Stats::default();
            let mut board = to_board(&pos);
            let mut g = MoveGenerator::new();
            let mut seen = BTreeMap::new();
            let r = no_panic(|| tree_walk(&mut board, &pos, &mut g, *depth, &mut st, &mut seen));
            let f = match r {
                Ok(Ok(())) => None,
                Ok(Err(f)) => Some((fen.clone(), f)),
                Err(p) => Some((fen.clone(), Failure::new(format!("panic: {}", p)))),
            };
            (st, f)
        })
        .collect();
    let mut v = None;
    for (st, f) in results {
        agg.merge(st);
        if v.is_none() {
            if let Some((fen, f)) = f {
                v = Some(violation("C02/tree", json!({"seed": fen}), f));
            }
        }
    }
    v
}

fn replay_c02_tree(case: &Value) -> Result<TestResult, String> {
    let fen = case["seed"].as_str().ok_or("no seed")?;
    let pos = Pos::from_fen(fen)?;
    let mut st = Stats::default();
    let mut board = to_board(&pos);
    let mut g = MoveGenerator::new();
    let mut seen = BTreeMap::new();
    let depth = if fen.starts_with("rnbqkbnr/pppppppp") { 4 } else { 3 };
    Ok(tree_walk(&mut board, &pos, &mut g, depth, &mut st, &mut seen))
}

pub fn c02_checks() -> Vec<Box<dyn DynCheck>> {
    vec![
        Box::new(C02Histories),
        Box::new(FnCheck {
            name: "C02/tree",
            run: run_c02_tree,
            replay: replay_c02_tree,
        }),
    ]
}

// ------------------------------------------------------------------------------ C06

pub const C06_RULE: &str = "positions biased to mates, stalemates, single/double/discovered checks, pins, en-passant and promotion checks (cage / pin-check / ep / promotion / castle themes, a terminal atlas, crowded many-queen positions with move lists beyond a hundred moves, placements, reachable walks), half-move clock below the draw threshold (0..39, or 99 in one case of eight) and no registered repetition; with a brand-new generator per position and with one generator serving a whole walk: player_is_in_check and current_player_is_in_check == reference 'king attacked'; game_ending (and Game::check_game_over_for_current_turn on a slice, and - game verdicts - on Games created from supplied positions after one move made by its coordinate pair, among them constructed mates in one whose mating move uses the squares of a first move of the opening book) == Checkmate iff in check with no legal move, Stalemate iff not in check with no legal move, None otherwise; every move of generate_moves_and_lazily_update_chess_move_effects carries effect Check/Checkmate/None == classification of the reference successor (never NotYetCalculated). Non-trivial = position is check/mate/stalemate or has a move giving check or mate (labels separate discovered, double, en-passant, promotion and castling checks); distinct = position fingerprint.";

fn classify(pos: &Pos, m: &Mv) -> (ChessMoveEffect, Vec<&'static str>) {
    let after = pos.make(m);
    let mut labels = Vec::new();
    if !after.in_check(after.side) {
        return (ChessMoveEffect::None, labels);
    }
    let k = after.king_sq(after.side).unwrap();
    let (mp, mc) = after.sq[m.to as usize].unwrap();
    let direct = after.piece_attacks(m.to, mp, mc, k);
    let n = after.checkers(after.side);
    if n >= 2 {
        labels.push("gives-double-check");
    }
    if !direct || n >= 2 {
        labels.push("gives-discovered-check");
    }
    match m.kind {
        Kind::Ep => labels.push("ep-gives-check"),
        Kind::Promo => labels.push("promotion-gives-check"),
        Kind::Castle => labels.push("castle-gives-check"),
        _ => {}
    }
    if after.legal_moves().is_empty() {
        labels.push("gives-mate");
        (ChessMoveEffect::Checkmate, labels)
    } else {
        labels.push("gives-check");
        (ChessMoveEffect::Check, labels)
    }
}

fn c06_node(pos: &Pos, board: &mut Board, g: &mut MoveGenerator, st: &mut Stats, with_game: bool) -> TestResult {
    let side = to_color(pos.side);
    let in_check = pos.in_check(pos.side);
    let legal = pos.legal_moves();
    let mut labels: Vec<&'static str> = Vec::new();
    // verdicts
    let e1 = evaluate::player_is_in_check(board, g, side);
    let e2 = evaluate::current_player_is_in_check(board, g);
    if e1 != in_check || e2 != in_check {
        return Err(fail_pos(
            format!(
                "player_is_in_check = {}, current_player_is_in_check = {}, but the king of {:?} is {}attacked",
                e1,
                e2,
                pos.side,
                if in_check { "" } else { "not " }
            ),
            pos,
        ));
    }
    let want = if legal.is_empty() {
        if in_check {
            labels.push("checkmate");
            "Checkmate"
        } else {
            labels.push("stalemate");
            "Stalemate"
        }
    } else {
        if in_check {
            labels.push("in-check");
        }
        "None"
    };
    let ending = evaluate::game_ending(board, g, side);
    let got = match &ending {
        Some(GameEnding::Checkmate) => "Checkmate",
        Some(GameEnding::Stalemate) => "Stalemate",
        Some(GameEnding::Draw) => "Draw",
        None => "None",
    };
    if got != want {
        return Err(fail_pos(format!("game_ending = {} but the rules say {}", got, want), pos));
    }
    let mate = evaluate::player_is_in_checkmate(board, g, side);
    if mate != (want == "Checkmate") {
        return Err(fail_pos(format!("player_is_in_checkmate = {} but the rules say {}", mate, want), pos));
    }
    if with_game {
        let mut game = Game::from_board(board.clone(), 1);
        let ge = game.check_game_over_for_current_turn();
        let got = match &ge {
            Some(GameEnding::Checkmate) => "Checkmate",
            Some(GameEnding::Stalemate) => "Stalemate",
            Some(GameEnding::Draw) => "Draw",
            None => "None",
        };
        if got != want {
            return Err(fail_pos(
                format!("Game::check_game_over_for_current_turn = {} but the rules say {}", got, want),
                pos,
            ));
        }
        st.count("game_level_verdicts", 1);
    }
    // annotations
    let annotated = g.generate_moves_and_lazily_update_chess_move_effects(board, side);
    let mut got: Vec<(Mv, ChessMoveEffect)> = annotated.iter().map(|m| (mv_of(m), m.effect())).collect();
    got.sort();
    let mut want_list: Vec<(Mv, ChessMoveEffect)> = Vec::new();
    for m in &legal {
        let (eff, ls) = classify(pos, m);
        for l in ls {
            if !labels.contains(&l) {
                labels.push(l);
            }
        }
        want_list.push((*m, eff));
    }
    want_list.sort();
    if got != want_list {
        let diff: Vec<String> = got
            .iter()
            .filter(|x| !want_list.contains(x))
            .map(|(m, e)| format!("{} annotated {:?}", mv_text(m), e))
            .chain(
                want_list
                    .iter()
                    .filter(|x| !got.contains(x))
                    .map(|(m, e)| format!("{} should be {:?}", mv_text(m), e)),
            )
            .collect();
        return Err(fail_pos(format!("move annotations differ: {}", diff.join("; ")), pos));
    }
    for l in &labels {
        st.label(l);
    }
    if !labels.is_empty() {
        st.nontrivial(pos.fingerprint(), || pos_sample(pos, &labels));
    }
    Ok(())
}

fn verdict_position() -> BoxedStrategy<String> {
    // below the draw threshold; one case in eight sits right under it (clock 99), where the
    // successor of every quiet move already has clock 100
    let low_clock = |r: gen::RawPos| {
        let mut r = r;
        r.half = if r.half % 8 == 7 { 99 } else { r.half % 40 };
        gen::build(&r).fen()
    };
    prop_oneof![
        3 => gen::terminal_biased(),
        3 => gen::terminal_atlas(),
        // move lists of a hundred and more moves, many of them checks
        1 => gen::tactical_crowd(),
        1 => gen::material_extreme().prop_map(low_clock),
        1 => gen::smother_theme(),
        2 => (gen::pre_terminal(), 0u8..8).prop_map(|(fen, k)| {
            let mut p = Pos::from_fen(&fen).unwrap();
            p.half = if k == 7 { 99 } else { 0 };
            p.fen()
        }),
        4 => gen::cage_theme().prop_map(low_clock),
        4 => gen::pin_check_theme().prop_map(low_clock),
        2 => gen::ep_theme().prop_map(low_clock),
        2 => gen::pre_double_step(),
        2 => gen::promo_theme().prop_map(low_clock),
        2 => gen::castle_theme().prop_map(low_clock),
        2 => gen::placement(20).prop_map(low_clock),
        2 => gen::endgame(5).prop_map(low_clock),
        2 => gen::walk(50).prop_map(|w| { let mut p = gen::walk_end(&w); p.half %= 40; p.fen() }),
    ]
    .boxed()
}

pub struct C06Positions;
impl Prop for C06Positions {
    type Case = String;
    fn name(&self) -> &'static str {
        "C06/positions"
    }
    fn strategy(&self, _tier: Tier) -> BoxedStrategy<String> {
        verdict_position()
    }
    fn cases(&self, tier: Tier) -> u32 {
        tier.pick(30_000, 250_000)
    }
    fn test(&self, fen: &String, st: &mut Stats) -> TestResult {
        let pos = Pos::from_fen(fen).map_err(Failure::new)?;
        let mut board = to_board(&pos);
        let mut g = MoveGenerator::new();
        let with_game = pos.fingerprint() % 16 == 0;
        c06_node(&pos, &mut board, &mut g, st, with_game)
    }
}

/// One generator serves every node of a walk (a "used" generator).
pub struct C06Walks;
impl Prop for C06Walks {
    type Case = gen::Walk;
    fn name(&self) -> &'static str {
        "C06/used-generator"
    }
    fn strategy(&self, _tier: Tier) -> BoxedStrategy<gen::Walk> {
        (verdict_position(), prop::collection::vec(any::<u16>(), 1..30))
            .prop_map(|(fen, sels)| gen::Walk { fen, sels })
            .boxed()
    }
    fn cases(&self, tier: Tier) -> u32 {
        tier.pick(4_000, 30_000)
    }
    fn test(&self, w: &gen::Walk, st: &mut Stats) -> TestResult {
        let (ps, ms) = gen::realize_walk(w);
        let mut seed = ps[0].clone();
        seed.half = 0;
        let mut board = to_board(&seed);
        let mut g = MoveGenerator::new();
        for (i, pos) in ps.iter().enumerate() {
            if pos.half >= 90 {
                break;
            }
            c06_node(pos, &mut board, &mut g, st, false)?;
            st.count("nodes", 1);
            if i >= 1 {
                st.evaluations += 1;
            }
            if i < ms.len() {
                chess_move_of(&ms[i])
                    .apply(&mut board)
                    .map_err(|e| fail_pos(format!("apply failed: {:?}", e), pos))?;
                board.toggle_turn();
            }
        }
        Ok(())
    }
}

/// Exhaustive tree walk in perft order with ONE generator answering for every node:
/// transposed paths meet again, so a cached verdict of a look-alike position would show.
fn c06_tree(board: &mut Board, pos: &Pos, g: &mut MoveGenerator, depth: u32, st: &mut Stats) -> TestResult {
    st.eval();
    c06_node(pos, board, g, st, false)?;
    if depth == 0 {
        return Ok(());
    }
    for m in pos.legal_moves() {
        let em = chess_move_of(&m);
        em.apply(board).map_err(|e| fail_pos(format!("apply failed: {:?}", e), pos))?;
        board.toggle_turn();
        let r = c06_tree(board, &pos.make(&m), g, depth - 1, st);
        board.toggle_turn();
        em.undo(board).map_err(|e| fail_pos(format!("undo failed: {:?}", e), pos))?;
        r?;
    }
    Ok(())
}

fn c06_tree_seeds(tier: Tier) -> Vec<(String, u32)> {
    let mut v: Vec<(String, u32)> = Vec::new();
    for (i, s) in C02_TREE_SEEDS.iter().enumerate() {
        let d = match i {
            0 | 1 => 4,
            4 => 3,
            _ => tier.pick(2, 3),
        };
        v.push((s.to_string(), d));
    }
    for s in gen::EXTRA_SEEDS {
        v.push((s.to_string(), tier.pick(1, 2)));
    }
    v
}

fn run_c06_tree(env: &Env, agg: &mut Stats) -> Option<Violation> {
    let seeds = c06_tree_seeds(env.tier);
    let results: Vec<(Stats, Option<(String, Failure)>)> = seeds
        .par_iter()
        .map(|(fen, depth)| {
            let pos = Pos::from_fen(fen).unwrap();
            let mut st = Stats::default();
            let mut board = to_board(&pos);
            let mut g = MoveGenerator::new();
            let r = no_panic(|| c06_tree(&mut board, &pos, &mut g, *depth, &mut st));
            let f = match r {
                Ok(Ok(())) => None,
                Ok(Err(f)) => Some((fen.clone(), f)),
                Err(p) => Some((fen.clone(), Failure::new(format!("panic: {}", p)))),
            };
            (st, f)
        })
        .collect();
    let mut v = None;
    for (st, f) in results {
        agg.merge(st);
        if v.is_none() {
            if let Some((fen, f)) = f {
                v = Some(violation("C06/tree-used-generator", json!({"seed": fen}), f));
            }
        }
    }
    v
}

fn replay_c06_tree(case: &Value) -> Result<TestResult, String> {
    let fen = case["seed"].as_str().ok_or("no seed")?;
    let pos = Pos::from_fen(fen)?;
    let depth = c06_tree_seeds(Tier::Thorough)
        .into_iter()
        .find(|(f, _)| f == fen)
        .map(|x| x.1)
        .unwrap_or(3);
    let mut st = Stats::default();
    let mut board = to_board(&pos);
    let mut g = MoveGenerator::new();
    Ok(c06_tree(&mut board, &pos, &mut g, depth, &mut st))
}

/// The verdict as the game loops get it: a Game created from a supplied position, one move made
/// by its coordinate pair, then check_game_over_for_current_turn. The positions are mates in
/// one whose mating move goes from and to the squares of a first move of the opening book (a
/// game that "follows the book" by squares only), built by taking back the checker of a
/// constructed mate, plus every move of generated near-terminal positions.
pub struct C06GameVerdicts;

#[derive(Clone, Debug, Serialize, Deserialize)]
pub struct GameVerdictCase {
    pub fen: String,
}

fn book_root_squares() -> Vec<(u8, u8)> {
    use chess::book::Book;
    use std::sync::OnceLock;
    static ROOTS: OnceLock<Vec<(u8, u8)>> = OnceLock::new();
    ROOTS
        .get_or_init(|| {
            let book = Book::default();
            let mut v: Vec<(u8, u8)> = book
                .get_next_moves(Vec::new())
                .iter()
                .map(|(bm, _)| (sq_of_bb(bm.from_square()), sq_of_bb(bm.to_square())))
                .collect();
            v.sort();
            v.dedup();
            v
        })
        .clone()
}

fn book_square_mate_in_one(root: u8, ks: u8, white_mated: bool, seed: u64) -> Option<Pos> {
    let roots = book_root_squares();
    if roots.is_empty() {
        return None;
    }
    let (f, t) = roots[root as usize % roots.len()];
    let mated = if white_mated { Side::White } else { Side::Black };
    let att = mated.other();
    let empty = Pos::empty();
    for (i, kind) in [P::Rook, P::Queen, P::Knight, P::Bishop].iter().enumerate() {
        if !empty.piece_attacks(f, *kind, att, t) {
            continue;
        }
        for k in 0..6u64 {
            let ks = ((ks as u64 + k * 11) % 64) as u8;
            if ks == f || ks == t {
                continue;
            }
            let Some(m) = gen::construct_terminal_at(ks, *kind, mated, false, seed ^ (k << 8) ^ i as u64, Some(t), Some(f)) else {
                continue;
            };
            if m.sq[f as usize].is_some() {
                continue;
            }
            let mut p = m.clone();
            p.sq[f as usize] = p.sq[t as usize].take();
            p.side = att;
            if p.consistent().is_err() {
                continue;
            }
            let back = p.legal_moves().into_iter().find(|x| x.from == f && x.to == t && x.cap.is_none() && x.kind == Kind::Std);
            if let Some(x) = back {
                let again = p.make(&x);
                if again.sq == m.sq && again.legal_moves().is_empty() && again.in_check(mated) {
                    return Some(p);
                }
            }
        }
    }
    None
}

impl Prop for C06GameVerdicts {
    type Case = GameVerdictCase;
    fn name(&self) -> &'static str {
        "C06/game-verdicts"
    }
    fn max_shrink_iters(&self) -> u32 {
        100
    }
    fn strategy(&self, _tier: Tier) -> BoxedStrategy<GameVerdictCase> {
        prop_oneof![
            3 => (any::<u8>(), 0u8..64, any::<bool>(), any::<u64>()).prop_map(|(root, ks, wm, seed)| {
                match book_square_mate_in_one(root, ks, wm, seed) {
                    Some(p) => p.fen(),
                    None => "7k/5K2/6Q1/8/8/8/8/8 w - - 0 1".to_string(),
                }
            }),
            2 => gen::pre_terminal(),
            1 => gen::terminal_biased(),
        ]
        .prop_map(|fen| GameVerdictCase { fen })
        .boxed()
    }
    fn cases(&self, tier: Tier) -> u32 {
        tier.pick(1_600, 40_000)
    }
    fn test(&self, c: &GameVerdictCase, st: &mut Stats) -> TestResult {
        let mut pos = Pos::from_fen(&c.fen).map_err(Failure::new)?;
        pos.half = 0;
        let roots = book_root_squares();
        let legal = pos.legal_moves();
        let want_of = |p: &Pos| -> &'static str {
            if p.legal_moves().is_empty() {
                if p.in_check(p.side) {
                    "Checkmate"
                } else {
                    "Stalemate"
                }
            } else {
                "None"
            }
        };
        let name_of = |e: &Option<GameEnding>| match e {
            Some(GameEnding::Checkmate) => "Checkmate",
            Some(GameEnding::Stalemate) => "Stalemate",
            Some(GameEnding::Draw) => "Draw",
            None => "None",
        };
        // the supplied position itself
        {
            let mut game = Game::from_board(to_board(&pos), 1);
            let got = game.check_game_over_for_current_turn();
            if name_of(&got) != want_of(&pos) {
                return Err(fail_pos(format!("Game::from_board(..).check_game_over_for_current_turn() = {:?}, the rules say {}", got, want_of(&pos)), &pos));
            }
        }
        let mut book_square_terminal = false;
        for m in legal.iter().take(40) {
            let next = pos.make(m);
            let want = want_of(&next);
            // all moves that end the game, the moves on book squares, and a few others
            let on_book = roots.contains(&(m.from, m.to));
            if want == "None" && !on_book && (m.from + m.to) % 5 != 0 {
                continue;
            }
            let mut game = Game::from_board(to_board(&pos), 1);
            if game.apply_chess_move_by_from_to_coordinates(bb(m.from), bb(m.to)).is_err() {
                continue; // making moves is C14's business
            }
            game.board_mut().toggle_turn();
            // the same pair may denote a promotion to a queen: follow what was played
            let played = from_board(game.board());
            if played.sq != next.sq {
                continue;
            }
            let got = game.check_game_over_for_current_turn();
            st.count("game_verdicts", 1);
            if on_book && want != "None" {
                book_square_terminal = true;
            }
            if name_of(&got) != want {
                return Err(fail_pos(
                    format!(
                        "a Game created from this position, after {} (made by its coordinate pair{}): check_game_over_for_current_turn() = {:?}, the rules say {}",
                        mv_text(m),
                        if on_book { ", the squares of a first move of the opening book" } else { "" },
                        got,
                        want
                    ),
                    &pos,
                ));
            }
        }
        if book_square_terminal {
            st.label("game-ended-by-a-move-on-book-squares");
        }
        st.nontrivial(pos.fingerprint() ^ 0x6A3E, || json!({"fen": pos.fen(), "ends_on_book_squares": book_square_terminal}));
        Ok(())
    }
}

pub fn c06_checks() -> Vec<Box<dyn DynCheck>> {
    vec![
        Box::new(C06Positions),
        Box::new(C06GameVerdicts),
        Box::new(C06Walks),
        Box::new(FnCheck {
            name: "C06/tree-used-generator",
            run: run_c06_tree,
            replay: replay_c06_tree,
        }),
    ]
}

// ------------------------------------------------------------------------------ C13

pub const C13_RULE: &str = "positions biased to two..four like pieces (knights, bishops, rooks, queens incl. promoted ones) that can reach one square from different files and ranks (ambiguity theme: origins drawn from the squares attacking a chosen target), pinned look-alikes (pin theme), promotions, en passant, castling with check, plus placements and reachable walks; enumerate_candidate_moves_with_algebraic_notation (and Game::enumerated_candidate_moves on a slice) must give every legal move exactly the reference SAN (piece letter, minimal file -> rank -> square disambiguation among LEGAL like-piece moves to the square, 'x', pawn-capture file, '=Q/R/B/N', O-O/O-O-O, '+'/'#') and labels must be pairwise distinct. Sessions: one Game object is driven through a generated shuffling game and its listing is compared with the reference at every turn (placements recur with either side to move). Non-trivial = at least two legal moves of like pieces share a destination (labels: same-file, same-rank, neither-shared, both-needed), or promotion/en-passant/castle-with-check present; distinct = position fingerprint.";

pub fn notation_position() -> BoxedStrategy<String> {
    // the label of a move must not depend on the clocks: one position in eight sits at clock 99
    (notation_position_inner(), 0u8..8)
        .prop_map(|(fen, k)| {
            if k == 7 {
                let mut p = Pos::from_fen(&fen).unwrap();
                p.half = 99;
                p.fen()
            } else {
                fen
            }
        })
        .boxed()
}

fn notation_position_inner() -> BoxedStrategy<String> {
    prop_oneof![
        8 => gen::ambiguity_theme().prop_map(|r| gen::build(&r).fen()),
        2 => gen::pin_check_theme().prop_map(|r| gen::build(&r).fen()),
        2 => gen::promo_theme().prop_map(|r| gen::build(&r).fen()),
        2 => gen::ep_theme().prop_map(|r| gen::build(&r).fen()),
        4 => gen::pre_double_step(),
        2 => gen::castle_theme().prop_map(|r| gen::build(&r).fen()),
        1 => gen::cage_theme().prop_map(|r| gen::build(&r).fen()),
        2 => gen::material_extreme().prop_map(|r| gen::build(&r).fen()),
        1 => gen::crowded_promo().prop_map(|r| gen::build(&r).fen()),
        2 => gen::pre_terminal(),
        1 => gen::smother_theme(),
        2 => gen::placement(24).prop_map(|r| gen::build(&r).fen()),
        3 => gen::walk(60).prop_map(|w| gen::walk_end(&w).fen()),
    ]
    .boxed()
}

pub fn ambiguity_labels(pos: &Pos, legal: &[Mv]) -> Vec<&'static str> {
    let mut out: Vec<&'static str> = Vec::new();
    for m in legal {
        if m.kind == Kind::Castle {
            if !notation::suffix(pos, m).is_empty() {
                out.push("castle-with-check");
            }
            continue;
        }
        let p = pos.sq[m.from as usize].unwrap().0;
        if p == P::Pawn {
            if m.kind == Kind::Promo {
                out.push("promotion");
            }
            if m.kind == Kind::Ep {
                out.push("en-passant");
            }
            continue;
        }
        let others: Vec<&Mv> = legal
            .iter()
            .filter(|o| o.to == m.to && o.from != m.from && pos.sq[o.from as usize].map(|x| x.0) == Some(p))
            .collect();
        if others.is_empty() {
            continue;
        }
        let sf = others.iter().any(|o| o.from % 8 == m.from % 8);
        let sr = others.iter().any(|o| o.from / 8 == m.from / 8);
        out.push(match (sf, sr) {
            (false, false) => "ambiguity-neither-file-nor-rank-shared",
            (false, true) => "ambiguity-same-rank",
            (true, false) => "ambiguity-same-file",
            (true, true) => "ambiguity-square-needed",
        });
    }
    out.sort();
    out.dedup();
    out
}

pub fn check_labels(pos: &Pos, got: &[(Mv, String)], st: &mut Stats, what: &str) -> TestResult {
    let legal = pos.legal_moves();
    let labels = ambiguity_labels(pos, &legal);
    for l in &labels {
        st.label(l);
    }
    if !labels.is_empty() {
        st.nontrivial(pos.fingerprint(), || pos_sample(pos, &labels));
    }
    let mut got_moves: Vec<Mv> = got.iter().map(|x| x.0).collect();
    got_moves.sort();
    if let Err(e) = compare_moves(&got_moves, &legal) {
        return Err(fail_pos(format!("{}: labelled moves are not the legal moves: {}", what, e), pos));
    }
    for (m, label) in got {
        let want = notation::san(pos, m, &legal);
        if *label != want {
            return Err(fail_pos(
                format!("{}: move {} is labelled {:?}, standard notation is {:?}", what, mv_text(m), label, want),
                pos,
            ));
        }
    }
    let mut seen = BTreeSet::new();
    for (m, label) in got {
        if !seen.insert(label.clone()) {
            return Err(fail_pos(format!("{}: label {:?} is used twice (e.g. for {})", what, label, mv_text(m)), pos));
        }
    }
    Ok(())
}

pub struct C13Positions;
impl Prop for C13Positions {
    type Case = String;
    fn name(&self) -> &'static str {
        "C13/positions"
    }
    fn strategy(&self, _tier: Tier) -> BoxedStrategy<String> {
        notation_position()
    }
    fn cases(&self, tier: Tier) -> u32 {
        tier.pick(24_000, 400_000)
    }
    fn test(&self, fen: &String, st: &mut Stats) -> TestResult {
        let pos = Pos::from_fen(fen).map_err(Failure::new)?;
        let mut board = to_board(&pos);
        let mut g = MoveGenerator::new();
        let listed = chess::chess_move::algebraic_notation::enumerate_candidate_moves_with_algebraic_notation(
            &mut board,
            to_color(pos.side),
            &mut g,
        );
        let got: Vec<(Mv, String)> = listed.iter().map(|(m, s)| (mv_of(m), s.clone())).collect();
        check_labels(&pos, &got, st, "enumerate_candidate_moves_with_algebraic_notation")?;
        if pos.fingerprint() % 8 == 0 {
            let mut game = Game::from_board(to_board(&pos), 1);
            // in half of these the engine is asked for its move first (opening book by squares,
            // then search): whatever it caches must not change the listing
            if pos.fingerprint() % 16 == 0 && !pos.legal_moves().is_empty() {
                let _ = game.select_waterfall_book_then_alpha_beta_best_move();
                st.count("engine_asked_before_game_listing", 1);
            }
            let listed = game.enumerated_candidate_moves();
            let got: Vec<(Mv, String)> = listed.iter().map(|(m, s)| (mv_of(m), s.clone())).collect();
            let mut scratch = Stats::default();
            check_labels(&pos, &got, &mut scratch, "Game::enumerated_candidate_moves")?;
            st.count("game_level_listings", 1);
        }
        Ok(())
    }
}

// ------------------------------------------------------------------------------ C19

pub const C19_RULE: &str = "positions (set-up themes incl. en passant, castling for both colours, promotions with and without capture, pawns next to a live ep target; reachable walks) x every legal move of the engine's own list: to_uci() must equal the reference long coordinate text (lower-case origin+destination, king's two-square move for castling, q/r/b/n suffix), texts of distinct moves must differ, and the cfg-exposed Stockfish-bridge parser applied to the text on the same board must rebuild a move with the same kind/from/to/promotion/capture whose application gives a board with an identical snapshot. Non-trivial = move is en passant, castle, promotion, or a pawn move made while an ep target is set; distinct = (position fingerprint, move).";

pub struct C19Positions;
impl Prop for C19Positions {
    type Case = String;
    fn name(&self) -> &'static str {
        "C19/positions"
    }
    fn strategy(&self, _tier: Tier) -> BoxedStrategy<String> {
        gen::position()
    }
    fn cases(&self, tier: Tier) -> u32 {
        tier.pick(40_000, 250_000)
    }
    fn test(&self, fen: &String, st: &mut Stats) -> TestResult {
        let pos = Pos::from_fen(fen).map_err(Failure::new)?;
        let mut board = to_board(&pos);
        let mut g = MoveGenerator::new();
        let list = g.generate_moves(&mut board, to_color(pos.side));
        let mut got: Vec<Mv> = list.iter().map(mv_of).collect();
        got.sort();
        let legal = pos.legal_moves();
        if got != legal {
            // C01's business; here only moves both sides agree on are rendered
            st.label("move-lists-differ(C01)");
        }
        let mut texts = BTreeSet::new();
        for em in list.iter() {
            let m = mv_of(em);
            if !legal.contains(&m) {
                continue;
            }
            st.count("moves_rendered", 1);
            st.evaluations += 1; // every rendered move is a comparison of its own
            let text = em.to_uci();
            let want = notation::uci(&m);
            if text != want {
                return Err(fail_pos(
                    format!("{} is rendered {:?}, standard coordinate text is {:?}", mv_text(&m), text, want),
                    &pos,
                ));
            }
            if !texts.insert(text.clone()) {
                return Err(fail_pos(format!("two distinct moves are both rendered {:?}", text), &pos));
            }
            let pawn_near_ep = pos.ep.is_some() && pos.sq[m.from as usize].map(|x| x.0) == Some(P::Pawn);
            if m.kind != Kind::Std || pawn_near_ep {
                let l = match m.kind {
                    Kind::Ep => "en-passant",
                    Kind::Castle => "castle",
                    Kind::Promo => "promotion",
                    Kind::Std => "pawn-move-with-live-ep-target",
                };
                st.label(l);
                st.nontrivial(pos.fingerprint() ^ fp_of(&m), || json!({"fen": pos.fen(), "move": text, "label": l}));
            }
            let parsed = match no_panic(|| chess::game::stockfish_elo::verif_create_chess_move_from_uci(&text, &board)) {
                Ok(p) => p,
                Err(msg) => {
                    return Err(fail_pos(format!("reading {:?} back panicked: {}", text, msg), &pos));
                }
            };
            let back = mv_of(&parsed);
            if back != m {
                return Err(fail_pos(
                    format!("{:?} read back as {} instead of {}", text, mv_text(&back), mv_text(&m)),
                    &pos,
                ));
            }
            let mut b1 = board.clone();
            let mut b2 = board.clone();
            let r1 = em.apply(&mut b1);
            let r2 = parsed.apply(&mut b2);
            ensure!(r1.is_ok() && r2.is_ok(), "apply failed for {:?} in {}", text, pos.fen());
            if let Some(d) = snapshot_diff(&snapshot(&b1), &snapshot(&b2)) {
                return Err(fail_pos(format!("move read back from {:?} has a different effect: {}", text, d), &pos));
            }
        }
        Ok(())
    }
}

// ------------------------------------------------------------------------------ C18

pub const C18_RULE: &str = "positions from the set-up themes, reachable walks and material-extreme set-ups (bare kings up to nine queens / ten rooks, bishops or knights a side within legal material) and a terminal atlas (mates by a single pawn, knight, bishop, rook or queen and stalemates constructed for every king square and both colours), castling rights dropped (the rotation does not preserve castling geometry), both sides to move: metamorphic relation T = swap colours + rotate 180 degrees (square i -> 63-i, ep target mirrored): board_material_score(T(P)) == -board_material_score(P) and, for every remaining depth d in a generated set plus 0 and 255, score(T(P), other side, d) == -score(P, side, d); |board_material_score(P)| strictly below |mate score| for every d in 0..=255 and both colours (mate scores read from evaluate::score on mated boards); mate scores strictly monotone in d in the mating side's favour; stalemate scores 0; no arithmetic overflow (overflow checks on). Non-trivial = P differs from T(P) up to sign (asymmetric), or material-extreme (>= 3 queens a side), or terminal; distinct = position fingerprint.";

fn mated_board(white_mated: bool) -> Pos {
    // back-rank mate
    let fen = if white_mated {
        "4k3/8/8/8/8/8/5PPP/3r2K1 w - - 0 1"
    } else {
        "3R2k1/5ppp/8/8/8/8/8/4K3 b - - 0 1"
    };
    Pos::from_fen(fen).unwrap()
}

pub fn mate_score(white_mated: bool, d: u8) -> i16 {
    let p = mated_board(white_mated);
    let mut b = to_board(&p);
    let mut g = MoveGenerator::new();
    evaluate::score(&mut b, &mut g, to_color(p.side), d)
}

fn run_c18_mates(_env: &Env, agg: &mut Stats) -> Option<Violation> {
    let name = "C18/mate-scores";
    let mut gw = MoveGenerator::new();
    let mut prev: Option<(i16, i16)> = None;
    for d in 0..=255u8 {
        let pw = mated_board(true);
        let pb = mated_board(false);
        let mut bw = to_board(&pw);
        let mut bb_ = to_board(&pb);
        let sw = match no_panic(|| evaluate::score(&mut bw, &mut gw, to_color(pw.side), d)) {
            Ok(s) => s,
            Err(m) => return Some(violation(name, json!({"depth": d}), Failure::new(format!("score panicked at remaining depth {}: {}", d, m)))),
        };
        let sb = match no_panic(|| evaluate::score(&mut bb_, &mut gw, to_color(pb.side), d)) {
            Ok(s) => s,
            Err(m) => return Some(violation(name, json!({"depth": d}), Failure::new(format!("score panicked at remaining depth {}: {}", d, m)))),
        };
        agg.eval();
        agg.nontrivial(d as u64 + 1000, || json!({"remaining_depth": d, "white_mated": sw, "black_mated": sb}));
        if !(sw < 0 && sb > 0) {
            return Some(violation(name, json!({"depth": d}), Failure::new(format!("mate scores have the wrong sign at depth {}: white mated {}, black mated {}", d, sw, sb))));
        }
        if let Some((pw_, pb_)) = prev {
            // more depth remaining = quicker mate = strictly better for the mating side
            if !(sw < pw_ && sb > pb_) {
                return Some(violation(name, json!({"depth": d}), Failure::new(format!("mate score not strictly better with more remaining depth: depth {} gives {}/{} after {}/{}", d, sw, sb, pw_, pb_))));
            }
        }
        prev = Some((sw, sb));
    }
    None
}

fn min_mate_magnitude() -> i32 {
    use std::sync::OnceLock;
    static M: OnceLock<i32> = OnceLock::new();
    *M.get_or_init(|| {
        let mut m = i32::MAX;
        for d in [0u8, 1, 128, 255] {
            m = m.min((mate_score(true, d) as i32).abs()).min((mate_score(false, d) as i32).abs());
        }
        m
    })
}

pub struct C18Positions;
impl Prop for C18Positions {
    type Case = (String, u8);
    fn name(&self) -> &'static str {
        "C18/positions"
    }
    fn strategy(&self, _tier: Tier) -> BoxedStrategy<(String, u8)> {
        let strip = |mut p: Pos| {
            p.rights = 0;
            p.half %= 40;
            p.fen()
        };
        (
            prop_oneof![
                5 => gen::material_extreme().prop_map(move |r| strip(gen::build(&r))),
                3 => gen::placement(28).prop_map(move |r| strip(gen::build(&r))),
                2 => gen::cage_theme().prop_map(move |r| strip(gen::build(&r))),
                2 => gen::terminal_biased(),
                3 => gen::terminal_atlas(),
                2 => gen::endgame(5).prop_map(move |r| strip(gen::build(&r))),
                // en passant as the only way out of a check, pinned or discovering captures
                3 => gen::ep_theme().prop_map(move |r| strip(gen::build(&r))),
                3 => gen::walk(80).prop_map(move |w| strip(gen::walk_end(&w))),
            ],
            any::<u8>(),
        )
            .boxed()
    }
    fn cases(&self, tier: Tier) -> u32 {
        tier.pick(30_000, 800_000)
    }
    fn test(&self, case: &(String, u8), st: &mut Stats) -> TestResult {
        let pos = Pos::from_fen(&case.0).map_err(Failure::new)?;
        let t = pos.rotated_swapped();
        let b = to_board(&pos);
        let bt = to_board(&t);
        let s = evaluate::board_material_score(&b);
        let s_t = evaluate::board_material_score(&bt);
        let queens = pos.count(P::Queen, Side::White).max(pos.count(P::Queen, Side::Black));
        let terminal = pos.legal_moves().is_empty();
        let mut labels: Vec<&'static str> = Vec::new();
        if s != 0 {
            labels.push("asymmetric");
        }
        if queens >= 3 {
            labels.push("material-extreme");
        }
        if terminal {
            labels.push(if pos.in_check(pos.side) { "checkmate" } else { "stalemate" });
            if let Some(ks) = pos.king_sq(pos.side) {
                let checkers: Vec<P> = (0..64u8)
                    .filter_map(|sq| match pos.sq[sq as usize] {
                        Some((k, c)) if c != pos.side && pos.piece_attacks(sq, k, c, ks) => Some(k),
                        _ => None,
                    })
                    .collect();
                if checkers.len() == 1 {
                    labels.push(match checkers[0] {
                        P::Pawn => "mate-by-a-single-pawn",
                        P::Knight => "mate-by-a-single-knight",
                        P::Bishop => "mate-by-a-single-bishop",
                        P::Rook => "mate-by-a-single-rook",
                        _ => "mate-by-a-single-queen",
                    });
                }
                let (f, r) = (ks % 8, ks / 8);
                if (f == 0 || f == 7) && (r == 0 || r == 7) {
                    labels.push("terminal-king-in-a-corner");
                } else if f > 0 && f < 7 && r > 0 && r < 7 {
                    labels.push("terminal-king-off-the-edge");
                }
            }
        }
        for l in &labels {
            st.label(l);
        }
        if !labels.is_empty() {
            st.nontrivial(pos.fingerprint(), || json!({"fen": pos.fen(), "rotated": t.fen(), "static": s, "labels": labels}));
        }
        if s_t as i32 != -(s as i32) {
            return Err(fail_pos(
                format!("static score {} but the colour-swapped rotation {} scores {}", s, t.fen(), s_t),
                &pos,
            ));
        }
        if (s as i32).abs() >= min_mate_magnitude() {
            return Err(fail_pos(
                format!("static score {} is not below the smallest mate score magnitude {}", s, min_mate_magnitude()),
                &pos,
            ));
        }
        // full score with terminal detection, both orientations
        let mut g = MoveGenerator::new();
        // the same generator is first asked about the same placement with the OTHER side to move
        // (where that is a consistent position): the answers below must not depend on it
        {
            // (as move annotation does) is the side NOT to move in check?
            let _ = evaluate::player_is_in_check(&b, &mut g, to_color(pos.side.other()));
            let mut flipped = pos.clone();
            flipped.side = pos.side.other();
            flipped.ep = None;
            if pos.ep.is_none() && flipped.consistent().is_ok() {
                let mut bf = to_board(&flipped);
                let _ = evaluate::score(&mut bf, &mut g, to_color(flipped.side), 0);
                st.label("same-generator-asked-about-the-other-side-first");
            }
        }
        for d in [case.1, 0, 255] {
            let mut b1 = b.clone();
            let mut b2 = bt.clone();
            let v = evaluate::score(&mut b1, &mut g, to_color(pos.side), d);
            let vt = evaluate::score(&mut b2, &mut g, to_color(t.side), d);
            // mate scores are not required to be colour-symmetric (only the static score is)
            let is_mate = terminal && pos.in_check(pos.side);
            if !is_mate && vt as i32 != -(v as i32) {
                return Err(fail_pos(
                    format!("score at remaining depth {} is {} but the colour-swapped rotation {} scores {}", d, v, t.fen(), vt),
                    &pos,
                ));
            }
            if terminal && !pos.in_check(pos.side) && v != 0 {
                return Err(fail_pos(format!("stalemate scores {} instead of 0", v), &pos));
            }
            if is_mate {
                let want_t = mate_score(t.side == Side::White, d);
                if vt != want_t {
                    return Err(fail_pos(format!("mate at remaining depth {} scores {} on the rotated board but {} on the reference mated board", d, vt, want_t), &pos));
                }
                let want = mate_score(pos.side == Side::White, d);
                if v != want {
                    return Err(fail_pos(format!("mate at remaining depth {} scores {} here but {} on the reference mated board", d, v, want), &pos));
                }
            }
            if !terminal && v != s {
                return Err(fail_pos(format!("non-terminal position scores {} but its static score is {}", v, s), &pos));
            }
        }
        Ok(())
    }
}

pub fn c18_checks() -> Vec<Box<dyn DynCheck>> {
    vec![
        Box::new(FnCheck {
            name: "C18/mate-scores",
            run: run_c18_mates,
            replay: |_| Err("deterministic enumeration: re-run the check".into()),
        }),
        Box::new(C18Positions),
    ]
}
