//! C09 - the parallel search gives the same answer under every thread schedule.

use super::search::pool;
use super::util::*;
use crate::bridge::*;
use crate::gen;
use crate::oracle::*;
use crate::runner::*;
use crate::sched::{MultiSched, Strategy as Sch};
use chess::alpha_beta_searcher::{alpha_beta_search, SearchContext};
use chess::move_generator::MoveGenerator;
use chess::verif_hooks::{set_search_observer, SearchObserver};
use proptest::prelude::*;
use serde::{Deserialize, Serialize};
use serde_json::json;
use std::sync::{Arc, Mutex, OnceLock};

pub const RULE: &str = "(position with <= 64 legal moves: few-piece endgames, cage/pin themes, small placements, reachable walks; depth 2..5 (5 only for <= 3 men, 4 for <= 4 men, 3 for <= 8 men); 0..3 prior searches run sequentially in a 1-thread pool to fix the initial cache contents) x (rayon pool of 2/3/4/16/64 threads uncontrolled; pool of 64 threads under the controlled scheduler with a generated strategy: in-order, permuted run-to-completion, PCT priorities with change points, round-robin quantum, random walk, explicit single preemptions of a run-to-completion order; when a run shows a cache entry that was stored and later replaced by a different value, further single-preemption schedules are aimed at those store steps - the observation only directs the search, the verdict is always the comparison below). The scheduler (a SearchObserver installed through the cfg(chess_verif) hooks) parks every root-move task at TaskBegin, then lets exactly one task run at a time and hands over only at shared-cache reads / writes and task ends, so the interleaving of cache accesses is a generated input. Oracle: (move tuple, last_score) of every run == the 1-thread in-order run on a freshly prepared identical context; a panic under any schedule is a violation; if the tasks do not all reach the barrier in time the scheduler releases them (run counted as given up, result still compared); a hang is caught by the watchdog (exit 2). Worker counts: thousands of 3..5-man endgames at depth 4..5 (the depth at which a transposition between root-move subtrees is an interior node with a narrowed window), each on a new context (after 0..1 prior searches), searched by uncontrolled pools of 1 and 2 workers (a quarter of the cases also by one of 3/4/16/64 workers); every answer must equal the 1-worker answer (non-trivial there = depth >= 4 with at least two root tasks). Non-trivial = the controlled run switched tasks at a cache access at least once and saw at least one cache hit on an entry written by another task; distinct = (position, prior, strategy) hash.";

#[derive(Clone, Debug, Serialize, Deserialize)]
pub struct SchedCase {
    pub fen: String,
    pub depth: u8,
    pub prior: u8,
    pub pool: u8,
    pub strategies: Vec<Sch>,
    /// explicit single-preemption schedules: run to completion in the priority order of the
    /// first `Permuted` strategy, preempting the running task at these steps
    #[serde(default)]
    pub preempt_at: Vec<u16>,
}

fn strategy_strategy() -> BoxedStrategy<Sch> {
    prop_oneof![
        1 => Just(Sch::InOrder),
        3 => prop::collection::vec(any::<u16>(), 1..40).prop_map(Sch::Permuted),
        4 => (prop::collection::vec(any::<u16>(), 1..40), prop::collection::vec(1u16..3000, 1..6)).prop_map(|(p, c)| Sch::Pct(p, c)),
        3 => (1u8..40).prop_map(Sch::RoundRobin),
        4 => prop::collection::vec(any::<u8>(), 1..64).prop_map(Sch::RandomWalk),
    ]
    .boxed()
}

const SLOTS: usize = 8;

fn multi() -> Arc<MultiSched> {
    static S: OnceLock<Arc<MultiSched>> = OnceLock::new();
    S.get_or_init(|| {
        let s = Arc::new(MultiSched::new(SLOTS));
        set_search_observer(Some(s.clone() as Arc<dyn SearchObserver>));
        s
    })
    .clone()
}

fn ctl_pool(k: usize) -> Arc<rayon::ThreadPool> {
    static P: OnceLock<Vec<Arc<rayon::ThreadPool>>> = OnceLock::new();
    P.get_or_init(|| {
        (0..SLOTS)
            .map(|k| {
                Arc::new(
                    rayon::ThreadPoolBuilder::new()
                        .num_threads(64)
                        .thread_name(move |i| format!("ctl{}-{}", k, i))
                        .build()
                        .expect("controlled pool"),
                )
            })
            .collect()
    })[k]
        .clone()
}

/// Each controlled run borrows one (scheduler, pool) slot; SLOTS runs can proceed at once.
static FREE_SLOTS: Mutex<Vec<usize>> = Mutex::new(Vec::new());
static SLOTS_INIT: std::sync::Once = std::sync::Once::new();
static SLOT_CV: std::sync::Condvar = std::sync::Condvar::new();

fn acquire_slot() -> usize {
    SLOTS_INIT.call_once(|| {
        *FREE_SLOTS.lock().unwrap() = (0..SLOTS).collect();
    });
    let mut free = FREE_SLOTS.lock().unwrap_or_else(|e| e.into_inner());
    loop {
        if let Some(k) = free.pop() {
            return k;
        }
        free = SLOT_CV.wait(free).unwrap_or_else(|e| e.into_inner());
    }
}

fn release_slot(k: usize) {
    FREE_SLOTS.lock().unwrap_or_else(|e| e.into_inner()).push(k);
    SLOT_CV.notify_one();
}

struct Prepared {
    board: chess::board::Board,
    gen: MoveGenerator,
    ctx: SearchContext,
}

/// Build the context and run the prior searches sequentially (1 thread, uncontrolled).
fn prepare(pos: &Pos, depth: u8, prior: u8) -> Option<(Prepared, Pos)> {
    let mut p = Prepared {
        board: to_board(pos),
        gen: MoveGenerator::new(),
        ctx: SearchContext::new(depth),
    };
    let mut cur = pos.clone();
    let p1 = local_pool(1);
    for _ in 0..prior {
        if !cur.has_legal_move(cur.side) {
            return None;
        }
        let mv = p1.install(|| alpha_beta_search(&mut p.ctx, &mut p.board, &mut p.gen)).ok()?;
        let m = mv_of(&mv);
        mv.apply(&mut p.board).ok()?;
        p.board.toggle_turn();
        cur = cur.make(&m);
    }
    if !cur.has_legal_move(cur.side) {
        return None;
    }
    Some((p, cur))
}

pub struct C09Schedules;

impl Prop for C09Schedules {
    type Case = SchedCase;
    fn name(&self) -> &'static str {
        "C09/schedules"
    }
    fn shards(&self) -> usize {
        8
    }
    fn max_shrink_iters(&self) -> u32 {
        120
    }
    fn strategy(&self, tier: Tier) -> BoxedStrategy<SchedCase> {
        let zero = |mut p: Pos| {
            p.half = 0;
            p.fen()
        };
        let nsched = tier.pick(3usize, 6usize);
        (
            prop_oneof![
                // the fewer the men, the more transpositions between root-move subtrees
                4 => gen::endgame(2).prop_map(move |r| zero(gen::build(&r))),
                4 => gen::pawn_race().prop_map(move |r| zero(gen::build(&r))),
                3 => gen::endgame(4).prop_map(move |r| zero(gen::build(&r))),
                1 => gen::cage_theme().prop_map(move |r| zero(gen::build(&r))),
                // the side to move is about to be mated: mate scores carry the remaining depth
                2 => gen::pre_terminal(),
                3 => gen::mating_material(),
                1 => gen::placement(8).prop_map(move |r| zero(gen::build(&r))),
                1 => gen::walk(40).prop_map(move |w| zero(gen::walk_end(&w))),
            ],
            // depth 4 (tiny positions only) is the first depth at which a transposition between
            // two root-move subtrees is an interior node
            prop_oneof![1 => Just(2u8), 3 => Just(3u8), 3 => Just(4u8), 1 => Just(5u8)],
            0u8..=3,
            0u8..5,
            prop::collection::vec(strategy_strategy(), nsched..=nsched),
            prop::collection::vec(any::<u16>(), 1..40),
            prop::collection::vec(1u16..1500, 0..3),
        )
            .prop_map(|(fen, depth, prior, pool, mut strategies, perm, preempt_at)| {
                // always one plain run-to-completion order: its prefix is what directed
                // single-preemption schedules extend
                strategies.insert(0, Sch::Permuted(perm));
                SchedCase {
                    fen,
                    depth,
                    prior,
                    pool,
                    strategies,
                    preempt_at,
                }
            })
            .boxed()
    }
    fn cases(&self, tier: Tier) -> u32 {
        tier.pick(160, 3_000)
    }
    fn test(&self, c: &SchedCase, st: &mut Stats) -> TestResult {
        let mut pos = Pos::from_fen(&c.fen).map_err(Failure::new)?;
        pos.half = 0;
        let depth = match pos.men() {
            0..=3 => c.depth,
            4 => c.depth.min(4),
            5..=8 => c.depth.min(3),
            _ => 2,
        };
        let ms = multi();
        // baseline: 1 thread, in order
        let (mut base, root) = match prepare(&pos, depth, c.prior) {
            Some(x) => x,
            None => return Ok(()),
        };
        let n_moves = root.legal_moves().len();
        if n_moves > 64 {
            return Ok(());
        }
        let p1 = pool(1);
        let base_mv = match no_panic(|| p1.install(|| alpha_beta_search(&mut base.ctx, &mut base.board, &mut base.gen))) {
            Ok(Ok(m)) => mv_of(&m),
            Ok(Err(e)) => return Err(fail_pos(format!("baseline search failed: {:?}", e), &root)),
            Err(m) => return Err(fail_pos(format!("baseline search panicked: {}", m), &root)),
        };
        let base_score = base.ctx.last_score();
        st.count("baseline_runs", 1);

        // uncontrolled pools
        let sizes = [2usize, 3, 4, 16, 64];
        let size = sizes[c.pool as usize % sizes.len()];
        {
            let (mut run, _) = prepare(&pos, depth, c.prior).ok_or_else(|| Failure::new("prepare not reproducible"))?;
            let p = pool(size);
            let r = no_panic(|| p.install(|| alpha_beta_search(&mut run.ctx, &mut run.board, &mut run.gen)));
            st.count("uncontrolled_runs", 1);
            match r {
                Ok(Ok(m)) => {
                    let got = (mv_of(&m), run.ctx.last_score());
                    if got != (base_mv, base_score) {
                        return Err(Failure::new(format!(
                            "uncontrolled {}-thread run returned ({}, {:?}) but the 1-thread run returned ({}, {:?}) for {} at depth {} after {} prior searches",
                            size, mv_text(&got.0), got.1, mv_text(&base_mv), base_score, root.fen(), depth, c.prior
                        ))
                        .with(json!({"fen": root.fen(), "seed_fen": pos.fen(), "threads": size})));
                    }
                }
                Ok(Err(e)) => return Err(fail_pos(format!("{}-thread search failed: {:?}", size, e), &root)),
                Err(m) => return Err(fail_pos(format!("{}-thread search panicked: {}", size, m), &root)),
            }
        }

        // controlled schedules
        let mut work: Vec<Sch> = c.strategies.clone();
        let first_perm: Option<Vec<u16>> = c.strategies.iter().find_map(|s| match s {
            Sch::Permuted(p) => Some(p.clone()),
            _ => None,
        });
        if let Some(p) = &first_perm {
            for k in &c.preempt_at {
                work.push(Sch::Pct(p.clone(), vec![*k]));
            }
        }
        let mut directed_budget = 24usize;
        let mut wi = 0;
        while wi < work.len() {
            let strat = &work[wi].clone();
            wi += 1;
            let (mut run, _) = prepare(&pos, depth, c.prior).ok_or_else(|| Failure::new("prepare not reproducible"))?;
            let slot = acquire_slot();
            let s = ms.slots[slot].clone();
            let p64 = ctl_pool(slot);
            s.arm(strat.clone());
            let r = no_panic(|| p64.install(|| alpha_beta_search(&mut run.ctx, &mut run.board, &mut run.gen)));
            let log = s.disarm();
            release_slot(slot);
            st.count("controlled_runs", 1);
            st.evaluations += 1; // every controlled schedule is an execution of its own
            if log.stalled {
                // not every task got its own worker in time (machine overloaded): the scheduler
                // released all tasks and the run finished uncontrolled; its result must still
                // equal the baseline, it just does not count as a controlled schedule
                st.label("scheduler-gave-up-control");
                st.count("controlled_runs_given_up", 1);
            }
            // feedback: a store that was later replaced by a different value marks a window in
            // which another task could read a provisional value; preempt the writer right there
            if let (Sch::Permuted(p), true) = (strat, !log.rewrites.is_empty()) {
                st.label("provisional-store-observed(diagnostic)");
                let mut steps: Vec<usize> = log.rewrites.clone();
                steps.sort();
                steps.dedup();
                let stride = (steps.len() / directed_budget.max(1)).max(1);
                for k in steps.iter().step_by(stride) {
                    if directed_budget == 0 {
                        break;
                    }
                    directed_budget -= 1;
                    if *k + 1 < u16::MAX as usize {
                        work.push(Sch::Pct(p.clone(), vec![(*k + 1) as u16]));
                        st.count("directed_single_preemption_runs", 1);
                    }
                }
            }
            if log.switches > 0 {
                st.label("switched-at-cache-access");
            }
            if log.cross_task_hits > 0 {
                st.label("cross-task-cache-hit");
            }
            if log.switches > 0 && log.cross_task_hits > 0 {
                st.nontrivial(root.fingerprint() ^ fp_of(strat) ^ ((c.prior as u64) << 60), || {
                    json!({"fen": root.fen(), "depth": depth, "prior_searches": c.prior, "root_tasks": n_moves, "strategy": format!("{:?}", strat).chars().take(120).collect::<String>(), "steps": log.steps, "switches": log.switches, "cross_task_hits": log.cross_task_hits, "trace_hash": format!("{:016x}", log.trace_hash)})
                });
            }
            match r {
                Ok(Ok(m)) => {
                    let got = (mv_of(&m), run.ctx.last_score());
                    if got != (base_mv, base_score) {
                        return Err(Failure::new(format!(
                            "under schedule {:?} the search returned ({}, {:?}) but the 1-thread in-order run returned ({}, {:?}) for {} at depth {} after {} prior searches{}",
                            strat,
                            mv_text(&got.0),
                            got.1,
                            mv_text(&base_mv),
                            base_score,
                            root.fen(),
                            depth,
                            c.prior,
                            log.impure_key.as_ref().map(|k| format!(" [diagnostic: cache key {}]", k)).unwrap_or_default()
                        ))
                        .with(json!({"fen": root.fen(), "seed_fen": pos.fen(), "trace_hash": format!("{:016x}", log.trace_hash), "steps": log.steps, "switches": log.switches})));
                    }
                }
                Ok(Err(e)) => return Err(fail_pos(format!("search under schedule {:?} failed: {:?}", strat, e), &root)),
                Err(m) => return Err(fail_pos(format!("search under schedule {:?} panicked: {}", strat, m), &root)),
            }
        }
        Ok(())
    }
}

/// Many tiny endgames at the deepest affordable depth, each searched on a brand-new context by
/// pools of 1 and 2 workers and, in a quarter of the cases, one of 3/4/16/64 workers (uncontrolled): the answers must all be the 1-worker
/// answer. Cheap, so it reaches thousands of positions where the controlled check reaches
/// hundreds.
pub struct C09WorkerCounts;

fn local_pool(n: usize) -> Arc<rayon::ThreadPool> {
    use std::cell::RefCell;
    use std::collections::BTreeMap;
    thread_local! {
        static POOLS: RefCell<BTreeMap<usize, Arc<rayon::ThreadPool>>> = RefCell::new(BTreeMap::new());
    }
    POOLS.with(|m| {
        m.borrow_mut()
            .entry(n)
            .or_insert_with(|| Arc::new(rayon::ThreadPoolBuilder::new().num_threads(n).build().expect("thread pool")))
            .clone()
    })
}

#[derive(Clone, Debug, Serialize, Deserialize)]
pub struct CountsCase {
    pub fen: String,
    pub depth: u8,
    pub prior: u8,
}

impl Prop for C09WorkerCounts {
    type Case = CountsCase;
    fn name(&self) -> &'static str {
        "C09/worker-counts"
    }
    fn max_shrink_iters(&self) -> u32 {
        150
    }
    fn strategy(&self, _tier: Tier) -> BoxedStrategy<CountsCase> {
        let zero = |mut p: Pos| {
            p.half = 0;
            p.fen()
        };
        (
            prop_oneof![
                8 => gen::endgame(1).prop_map(move |r| zero(gen::build(&r))),
                4 => gen::endgame(2).prop_map(move |r| zero(gen::build(&r))),
                2 => gen::endgame(3).prop_map(move |r| zero(gen::build(&r))),
                2 => gen::pawn_race().prop_map(move |r| zero(gen::build(&r))),
                1 => gen::mating_material(),
            ],
            prop_oneof![1 => Just(4u8), 4 => Just(5u8)],
            prop_oneof![3 => Just(0u8), 1 => Just(1u8)],
        )
            .prop_map(|(fen, depth, prior)| CountsCase { fen, depth, prior })
            .boxed()
    }
    fn cases(&self, tier: Tier) -> u32 {
        tier.pick(5_600, 60_000)
    }
    fn test(&self, c: &CountsCase, st: &mut Stats) -> TestResult {
        let mut pos = Pos::from_fen(&c.fen).map_err(Failure::new)?;
        pos.half = 0;
        let depth = match pos.men() {
            0..=3 => c.depth,
            // depth 5 with four men costs ten times the three-men search: one case in eight
            4 if pos.fingerprint() % 8 == 0 => c.depth,
            4 | 5 => c.depth.min(4),
            _ => 3,
        };
        let (mut base, root) = match prepare(&pos, depth, c.prior) {
            Some(x) => x,
            None => return Ok(()),
        };
        let p1 = local_pool(1);
        let base_mv = match no_panic(|| p1.install(|| alpha_beta_search(&mut base.ctx, &mut base.board, &mut base.gen))) {
            Ok(Ok(m)) => mv_of(&m),
            Ok(Err(e)) => return Err(fail_pos(format!("1-thread search failed: {:?}", e), &root)),
            Err(m) => return Err(fail_pos(format!("1-thread search panicked: {}", m), &root)),
        };
        let base_score = base.ctx.last_score();
        st.count("baseline_runs", 1);
        let mut differing_tasks = false;
        // 2 workers always, one larger pool by turns; small pools are per calling thread so
        // that the shards of this check do not queue up behind one shared 2-thread pool
        let other: usize = [3usize, 4, 16, 64][(root.fingerprint() >> 12) as usize % 4];
        let sizes: &[usize] = if (root.fingerprint() >> 20) % 4 == 0 { &[2, other] } else { &[2] };
        for &size in sizes {
            let (mut run, _) = prepare(&pos, depth, c.prior).ok_or_else(|| Failure::new("prepare not reproducible"))?;
            let p = if size <= 4 { local_pool(size) } else { pool(size) };
            let r = no_panic(|| p.install(|| alpha_beta_search(&mut run.ctx, &mut run.board, &mut run.gen)));
            st.count("uncontrolled_runs", 1);
            st.evaluations += 1;
            match r {
                Ok(Ok(m)) => {
                    let got = (mv_of(&m), run.ctx.last_score());
                    if got != (base_mv, base_score) {
                        return Err(Failure::new(format!(
                            "uncontrolled {}-thread run returned ({}, {:?}) but the 1-thread run returned ({}, {:?}) for {} at depth {} after {} prior searches",
                            size, mv_text(&got.0), got.1, mv_text(&base_mv), base_score, root.fen(), depth, c.prior
                        ))
                        .with(json!({"fen": root.fen(), "seed_fen": pos.fen(), "threads": size})));
                    }
                    // how much of the work was shared is a fact about the schedule: the node
                    // counts of two pool sizes differ when tasks saw each other's entries
                    if run.ctx.searched_position_count() != base.ctx.searched_position_count() {
                        differing_tasks = true;
                    }
                }
                Ok(Err(e)) => return Err(fail_pos(format!("{}-thread search failed: {:?}", size, e), &root)),
                Err(m) => return Err(fail_pos(format!("{}-thread search panicked: {}", size, m), &root)),
            }
        }
        st.label(&format!("depth-{}", depth));
        st.label(&format!("{}-men", root.men()));
        if differing_tasks {
            st.label("node-count-differs-between-pool-sizes");
        }
        if depth >= 4 && root.legal_moves().len() >= 2 {
            st.nontrivial(root.fingerprint() ^ ((depth as u64) << 56) ^ ((c.prior as u64) << 60), || {
                json!({"fen": root.fen(), "depth": depth, "prior_searches": c.prior, "pools": sizes, "root_tasks": root.legal_moves().len()})
            });
        }
        Ok(())
    }
}

pub fn checks() -> Vec<Box<dyn DynCheck>> {
    vec![Box::new(C09Schedules), Box::new(C09WorkerCounts)]
}
