//! C01 - generated moves are exactly the legal moves.

use super::util::*;
use crate::bridge::*;
use crate::gen;
use crate::oracle::*;
use crate::runner::*;
use chess::move_generator::MoveGenerator;
use proptest::prelude::*;
use rayon::prelude::*;
use serde_json::{json, Value};

pub const RULE: &str = "positions: rule-interaction-biased set-ups (castle/ep/promotion/pin/check/cage themes, uniform and pawn-heavy placements, many-queen swarms and crowds with move lists of 130..220 moves) and reachable positions (random legal walks from 14 seeds and from set-ups); each is given to a brand-new MoveGenerator (the colour is passed explicitly; in half of the cases board.turn() is the other colour, as in count_positions) and the result compared as a multiset of (kind, from, to, promotion, captured) with the mailbox reference. Walks additionally evolve one engine board by apply() and compare at every node; tree walks enumerate all nodes to a fixed depth. Non-trivial = position shows a legal or illegal-pseudo-legal en passant, available or attack-prevented castling, promotion, pin, check, double check, mate or stalemate; distinct = position fingerprint (placement, side, rights, ep).";

pub fn test_position(pos: &Pos, st: &mut Stats) -> TestResult {
    // legal moves do not depend on the clocks: one position in eight carries a half-move clock
    // of 100..149 (a legal game goes on until a draw is claimed, at the latest at 150)
    let mut pos = pos.clone();
    if pos.ep.is_none() && (pos.fingerprint() >> 8) % 8 == 0 {
        pos.half = 100 + ((pos.fingerprint() >> 16) % 50) as u32;
        st.label("half-move-clock>=100");
    }
    let pos = &pos;
    let mut board = to_board(pos);
    // a copy of a board is the same position (one case in four is generated from a clone)
    if (pos.fingerprint() >> 4) % 4 == 0 {
        board = board.clone();
        st.label("generated-from-a-clone");
    }
    // callers such as count_positions pass the colour explicitly and never update
    // board.turn(): in half of the cases the board's turn is the other colour
    if pos.fingerprint() & 1 == 1 {
        board.toggle_turn();
        st.label("board-turn-is-other-colour");
    }
    let mut g = MoveGenerator::new();
    let reference = pos.legal_moves();
    let engine = engine_moves(&mut g, &mut board, pos.side);
    let labels = gen::labels(pos);
    for l in &labels {
        st.label(l);
    }
    if reference.len() > 128 {
        st.label("more-than-128-legal-moves");
    }
    if reference.len() > 100 || pos.count(P::Queen, pos.side) >= 6 {
        let pseudo = pos.pseudo_moves(pos.side).len();
        if pseudo > 128 && pseudo > reference.len() {
            st.label("more-than-128-pseudo-legal-moves-some-illegal");
        }
    }
    if gen::is_rule_interaction(&labels) {
        st.nontrivial(pos.fingerprint(), || pos_sample(pos, &labels));
    }
    if let Err(e) = compare_moves(&engine, &reference) {
        return Err(fail_pos(format!("legal moves differ for {:?} to move: {}", pos.side, e), pos));
    }
    // the same position held by a Game (one case in eight): a new generator on the game's
    // board must give the same answer
    if pos.fingerprint() % 8 == 3 {
        let game = chess::game::game::Game::from_board(to_board(pos), 1);
        let mut gb = game.board().clone();
        let mut g2 = MoveGenerator::new();
        let engine = engine_moves(&mut g2, &mut gb, pos.side);
        st.count("game_held_boards", 1);
        if let Err(e) = compare_moves(&engine, &reference) {
            return Err(fail_pos(
                format!("legal moves on the board of a Game created from this position differ: {}", e),
                pos,
            ));
        }
    }
    Ok(())
}

pub struct Positions;

impl Prop for Positions {
    type Case = String;
    fn name(&self) -> &'static str {
        "C01/positions"
    }
    fn strategy(&self, _tier: Tier) -> BoxedStrategy<String> {
        gen::position()
    }
    fn cases(&self, tier: Tier) -> u32 {
        tier.pick(24_000, 600_000)
    }
    fn test(&self, fen: &String, st: &mut Stats) -> TestResult {
        let pos = Pos::from_fen(fen).map_err(Failure::new)?;
        test_position(&pos, st)
    }
}

/// One engine board evolved by apply(); fresh generator at every node.
pub struct Walks;

impl Prop for Walks {
    type Case = gen::Walk;
    fn name(&self) -> &'static str {
        "C01/walks"
    }
    fn strategy(&self, _tier: Tier) -> BoxedStrategy<gen::Walk> {
        gen::walk(40)
    }
    fn cases(&self, tier: Tier) -> u32 {
        tier.pick(800, 20_000)
    }
    fn test(&self, w: &gen::Walk, st: &mut Stats) -> TestResult {
        let (ps, ms) = gen::realize_walk(w);
        let mut board = to_board(&ps[0]);
        for (i, pos) in ps.iter().enumerate() {
            let mut g = MoveGenerator::new();
            let reference = pos.legal_moves();
            let engine = engine_moves(&mut g, &mut board, pos.side);
            let labels = gen::labels(pos);
            if gen::is_rule_interaction(&labels) {
                st.nontrivial(pos.fingerprint(), || pos_sample(pos, &labels));
            }
            st.count("nodes", 1);
            if i >= 1 {
                st.evaluations += 1; // every node of the walk is a comparison of its own
            }
            if let Err(e) = compare_moves(&engine, &reference) {
                return Err(fail_pos(
                    format!("after {} plies of engine apply(): legal moves differ: {}", i, e),
                    pos,
                ));
            }
            if i < ms.len() {
                let em = chess_move_of(&ms[i]);
                if let Err(e) = em.apply(&mut board) {
                    return Err(fail_pos(format!("apply failed: {:?}", e), pos));
                }
                board.toggle_turn();
            }
        }
        Ok(())
    }
}

fn tree(pos: &Pos, depth: u32, st: &mut Stats) -> TestResult {
    test_position(pos, st)?;
    st.eval();
    if depth == 0 {
        return Ok(());
    }
    for m in pos.legal_moves() {
        tree(&pos.make(&m), depth - 1, st)?;
    }
    Ok(())
}

fn run_tree(env: &Env, agg: &mut Stats) -> Option<Violation> {
    let depth = env.tier.pick(1, 2);
    let mut seeds: Vec<String> = gen::standard_fens();
    seeds.extend(gen::EXTRA_SEEDS.iter().map(|s| s.to_string()));
    // split by first move so the work spreads over the cores
    let mut jobs: Vec<(String, Pos)> = Vec::new();
    for fen in &seeds {
        let p = Pos::from_fen(fen).unwrap();
        jobs.push((fen.clone(), p.clone()));
    }
    let results: Vec<(Stats, Option<(String, Failure)>)> = jobs
        .par_iter()
        .map(|(fen, p)| {
            let mut st = Stats::default();
            let mut first = None;
            // root itself
            if let Err(f) = test_position(p, &mut st) {
                return (st, Some((fen.clone(), f)));
            }
            st.eval();
            let sub: Vec<(Stats, Option<Failure>)> = p
                .legal_moves()
                .par_iter()
                .map(|m| {
                    let mut s2 = Stats::default();
                    let r = no_panic(|| tree(&p.make(m), depth, &mut s2));
                    let r = match r {
                        Ok(r) => r.err(),
                        Err(pm) => Some(Failure::new(format!("panic: {}", pm))),
                    };
                    (s2, r)
                })
                .collect();
            for (s2, r) in sub {
                st.merge(s2);
                if first.is_none() {
                    if let Some(f) = r {
                        first = Some((fen.clone(), f));
                    }
                }
            }
            (st, first)
        })
        .collect();
    let mut v = None;
    for (st, f) in results {
        agg.merge(st);
        if v.is_none() {
            if let Some((fen, f)) = f {
                let case = f.detail.get("fen").cloned().unwrap_or(json!(fen));
                v = Some(violation("C01/positions", case, f));
            }
        }
    }
    agg.count("tree_depth_plus_one", depth as u64 + 1);
    v
}

fn replay_none(_: &Value) -> Result<TestResult, String> {
    Err("tree failures are replayed as C01/positions".into())
}

pub fn checks() -> Vec<Box<dyn DynCheck>> {
    vec![
        Box::new(Positions),
        Box::new(Walks),
        Box::new(FnCheck {
            name: "C01/tree",
            run: run_tree,
            replay: replay_none,
        }),
    ]
}
