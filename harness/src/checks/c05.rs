//! C05 - the position key is a pure function of (placement, rights, ep target).

use super::hist::C05Histories;
use super::util::*;
use crate::bridge::*;
use crate::gen;
use crate::oracle::*;
use crate::ensure;
use crate::runner::*;
use chess::board::castle_rights_bitmask::ALL_CASTLE_RIGHTS;
use chess::board::Board;
use common::bitboard::bitboard::Bitboard;
use proptest::prelude::*;
use serde::{Deserialize, Serialize};
use serde_json::{json, Value};
use std::collections::{BTreeMap, HashSet};

pub const RULE: &str = "(a) move/undo histories (special-move biased, up to 120 ops, with occasional direct puts on untouched squares in the middle and continuation on a clone; marathon games of more than 1024 plies) from set-up and reachable seeds: after every apply and undo the key must equal the key of a board built from scratch (put in square order, one lose_castle_rights, one push_en_passant_target) with the same placement, rights and ep target - so any two histories ending in the same position are compared transitively; (b) direct set-up histories of put (including refused puts on occupied squares), remove (including empty squares), lose/pop castle rights, push/pop en-passant target and - none of which the key may depend on - push/pop half-move clock (0..150, around 100, 255), toggled turn and set move counter in generated orders, compared with the from-scratch key after every operation; (c) constants read black-box from single-feature boards: 768 piece keys and 64 ep keys non-zero and pairwise distinct (also across the two families and against the rights-set keys), 16 rights-set keys pairwise distinct, and additivity key(set-up) == XOR of its constants; (d) N draws of the build script's table generator (precompile::zobrist::write_zobrist_tables) parsed back: 768 + 64 non-zero pairwise distinct entries, 16 distinct rights entries. Non-trivial history = contains a double step and an expired ep target, a rights change, castle or en passant; distinct = hash of the op sequence.";

#[derive(Clone, Debug, Serialize, Deserialize)]
pub enum SetupOp {
    Put(u8, u8, bool),
    Remove(u8),
    Lose(u8),
    PopRights,
    PushEp(Option<u8>),
    PopEp,
    /// the counters and the side to move are not part of the key
    Clock(u8),
    PopClock,
    Turn,
    Fullmove(u16),
}

#[derive(Clone, Debug, Serialize, Deserialize)]
pub struct Setup {
    pub ops: Vec<SetupOp>,
}

pub struct Setups;

fn engine_rights(model: u8) -> u8 {
    // the model keeps rights in the engine's own bit layout here: it only mirrors the
    // documented lose/pop stack discipline
    model
}

fn scratch_key(sq: &[Option<(P, Side)>; 64], rights_engine: u8, ep: Option<u8>) -> u64 {
    let mut b = Board::new();
    for s in 0..64u8 {
        if let Some((p, c)) = sq[s as usize] {
            b.put(bb(s), to_piece(p), to_color(c)).unwrap();
        }
    }
    b.lose_castle_rights(ALL_CASTLE_RIGHTS & !rights_engine);
    if let Some(t) = ep {
        b.push_en_passant_target(bb(t));
    }
    b.current_position_hash()
}

impl Prop for Setups {
    type Case = Setup;
    fn name(&self) -> &'static str {
        "C05/setups"
    }
    fn strategy(&self, _tier: Tier) -> BoxedStrategy<Setup> {
        let op = prop_oneof![
            8 => (0u8..64, 0u8..6, any::<bool>()).prop_map(|(s, p, w)| SetupOp::Put(s, p, w)),
            // a small square range makes refused puts and real removes frequent
            6 => (0u8..12, 0u8..6, any::<bool>()).prop_map(|(s, p, w)| SetupOp::Put(s, p, w)),
            4 => (0u8..64).prop_map(SetupOp::Remove),
            4 => (0u8..12).prop_map(SetupOp::Remove),
            3 => (0u8..16).prop_map(SetupOp::Lose),
            2 => Just(SetupOp::PopRights),
            3 => prop::option::weighted(0.8, 0u8..64).prop_map(SetupOp::PushEp),
            2 => Just(SetupOp::PopEp),
            2 => prop_oneof![2 => 0u8..=150, 2 => 98u8..=102, 1 => Just(255u8)].prop_map(SetupOp::Clock),
            1 => Just(SetupOp::PopClock),
            1 => Just(SetupOp::Turn),
            1 => prop_oneof![1 => 0u16..600, 1 => Just(65535u16)].prop_map(SetupOp::Fullmove),
        ];
        prop::collection::vec(op, 1..60)
            .prop_map(|ops| Setup { ops })
            .boxed()
    }
    fn cases(&self, tier: Tier) -> u32 {
        tier.pick(100_000, 500_000)
    }
    fn test(&self, c: &Setup, st: &mut Stats) -> TestResult {
        let mut b = Board::new();
        let mut sq: [Option<(P, Side)>; 64] = [None; 64];
        let mut rights = vec![ALL_CASTLE_RIGHTS];
        let mut eps: Vec<Option<u8>> = vec![None];
        let mut refused = false;
        let mut removed = false;
        let mut ep_replaced = false;
        let mut clocks = 0u32;
        let mut clock_100 = false;
        for (i, op) in c.ops.iter().enumerate() {
            match op {
                SetupOp::Put(s, p, w) => {
                    let p = ALL_P[*p as usize % 6];
                    let side = if *w { Side::White } else { Side::Black };
                    let r = b.put(bb(*s), to_piece(p), to_color(side));
                    if sq[*s as usize].is_some() {
                        ensure!(r.is_err(), "put on occupied {} was accepted", sq_name(*s));
                        refused = true;
                    } else {
                        ensure!(r.is_ok(), "put on empty {} was refused", sq_name(*s));
                        sq[*s as usize] = Some((p, side));
                    }
                }
                SetupOp::Remove(s) => {
                    let r = b.remove(bb(*s));
                    let want = sq[*s as usize].take();
                    ensure!(
                        r.map(|(p, c)| (from_piece(p), from_color(c))) == want,
                        "remove({}) returned {:?}, expected {:?}",
                        sq_name(*s),
                        r,
                        want
                    );
                    if want.is_some() {
                        removed = true;
                    }
                }
                SetupOp::Lose(m) => {
                    let cur = *rights.last().unwrap();
                    b.lose_castle_rights(engine_rights(*m));
                    rights.push(cur & !*m);
                }
                SetupOp::PopRights => {
                    if rights.len() > 1 {
                        b.pop_castle_rights();
                        rights.pop();
                    }
                }
                SetupOp::PushEp(t) => {
                    if eps.last().unwrap().is_some() {
                        ep_replaced = true;
                    }
                    b.push_en_passant_target(t.map(bb).unwrap_or(Bitboard::EMPTY));
                    eps.push(*t);
                }
                SetupOp::PopEp => {
                    if eps.len() > 1 {
                        b.pop_en_passant_target();
                        eps.pop();
                    }
                }
                SetupOp::Clock(v) => {
                    b.push_halfmove_clock(*v);
                    clocks += 1;
                    if *v >= 100 {
                        clock_100 = true;
                    }
                }
                SetupOp::PopClock => {
                    if clocks > 0 {
                        b.pop_halfmove_clock();
                        clocks -= 1;
                    }
                }
                SetupOp::Turn => {
                    b.toggle_turn();
                }
                SetupOp::Fullmove(v) => {
                    b.set_fullmove_clock(*v as u32);
                }
            }
            let want = scratch_key(&sq, *rights.last().unwrap(), *eps.last().unwrap());
            let got = b.current_position_hash();
            if got != want {
                return Err(Failure::new(format!(
                    "after set-up op #{} {:?}: key {:#018x} != from-scratch key {:#018x} of the same placement/rights/ep",
                    i, op, got, want
                ))
                .with(json!({"rights": rights.last(), "ep": eps.last().unwrap().map(sq_name)})));
            }
            ensure!(
                b.peek_castle_rights() == *rights.last().unwrap(),
                "rights stack out of step with the model"
            );
        }
        if refused {
            st.label("refused-put");
        }
        if removed {
            st.label("remove");
        }
        if ep_replaced {
            st.label("ep-target-replaced");
        }
        if clock_100 {
            st.label("half-move-clock>=100");
        }
        if (refused || removed) && ep_replaced {
            st.nontrivial(fp_of(c), || json!({"ops": format!("{:?}", &c.ops[..c.ops.len().min(12)])}));
        }
        Ok(())
    }
}

// ------------------------------------------------------------------ constants of this build

fn empty_key() -> u64 {
    Board::new().current_position_hash()
}

fn run_constants(env: &Env, agg: &mut Stats) -> Option<Violation> {
    let name = "C05/constants";
    let base = empty_key();
    let mut piece_consts: BTreeMap<(usize, usize, u8), u64> = BTreeMap::new();
    let mut seen = HashSet::new();
    for (pi, p) in ALL_P.iter().enumerate() {
        for (ci, c) in [Side::White, Side::Black].iter().enumerate() {
            for s in 0..64u8 {
                let mut b = Board::new();
                b.put(bb(s), to_piece(*p), to_color(*c)).unwrap();
                let k = b.current_position_hash() ^ base;
                agg.eval();
                agg.nontrivial(fp_of(&("piece", pi, ci, s)), || json!({"feature": format!("{:?} {:?} on {}", c, p, sq_name(s)), "constant": format!("{:#018x}", k)}));
                if k == 0 {
                    return Some(violation(name, json!({"piece": pi, "colour": ci, "square": s}), Failure::new(format!("key constant of {:?} {:?} on {} is zero", c, p, sq_name(s)))));
                }
                if !seen.insert(k) {
                    return Some(violation(name, json!({"piece": pi, "colour": ci, "square": s}), Failure::new(format!("key constant of {:?} {:?} on {} equals another piece constant", c, p, sq_name(s)))));
                }
                piece_consts.insert((pi, ci, s), k);
            }
        }
    }
    let mut ep_consts = Vec::new();
    let mut seen_ep = HashSet::new();
    for s in 0..64u8 {
        let mut b = Board::new();
        b.push_en_passant_target(bb(s));
        let k = b.current_position_hash() ^ base;
        agg.eval();
        agg.nontrivial(fp_of(&("ep", s)), || json!({"feature": format!("ep target {}", sq_name(s)), "constant": format!("{:#018x}", k)}));
        if k == 0 || !seen_ep.insert(k) {
            return Some(violation(name, json!({"ep": s}), Failure::new(format!("ep key constant of {} is zero or repeated", sq_name(s)))));
        }
        if seen.contains(&k) {
            return Some(violation(name, json!({"ep": s}), Failure::new(format!("ep key constant of {} equals a piece constant (the constants are not pairwise distinct)", sq_name(s)))));
        }
        ep_consts.push(k);
    }
    let mut rights_consts = Vec::new();
    let mut seen_r = HashSet::new();
    for r in 0..16u8 {
        let mut b = Board::new();
        b.lose_castle_rights(ALL_CASTLE_RIGHTS & !r);
        ensure_v(b.peek_castle_rights() == r)?;
        let k = b.current_position_hash() ^ base;
        agg.eval();
        if !seen_r.insert(k) {
            return Some(violation(name, json!({"rights": r}), Failure::new(format!("two castling-rights sets share one key (set {:04b})", r))));
        }
        if k != 0 && (seen.contains(&k) || seen_ep.contains(&k)) {
            return Some(violation(name, json!({"rights": r}), Failure::new(format!("the key constant of castling-rights set {:04b} equals a piece or ep constant", r))));
        }
        rights_consts.push(k);
    }
    // additivity on generated set-ups
    let mut runner_seed = env.seed ^ 0xC05;
    let n = env.tier.pick(16_000, 100_000);
    for i in 0..n {
        // simple deterministic generator over the harness seed (not an engine input domain issue:
        // any placement is a valid argument of the key function)
        let mut x = runner_seed.wrapping_add(i as u64).wrapping_mul(0x9E3779B97F4A7C15);
        let mut next = || {
            x ^= x << 13;
            x ^= x >> 7;
            x ^= x << 17;
            x
        };
        let mut sq: [Option<(P, Side)>; 64] = [None; 64];
        let men = next() % 33;
        let mut want = 0u64;
        for _ in 0..men {
            let s = (next() % 64) as u8;
            if sq[s as usize].is_some() {
                continue;
            }
            let pi = (next() % 6) as usize;
            let ci = (next() % 2) as usize;
            sq[s as usize] = Some((ALL_P[pi], if ci == 0 { Side::White } else { Side::Black }));
            want ^= piece_consts[&(pi, ci, s)];
        }
        let r = (next() % 16) as u8;
        let ep = if next() % 2 == 0 { Some((next() % 64) as u8) } else { None };
        want ^= rights_consts[r as usize];
        if let Some(t) = ep {
            want ^= ep_consts[t as usize];
        }
        let got = scratch_key(&sq, r, ep) ^ base;
        agg.eval();
        if got != want {
            let mut p = Pos::empty();
            p.sq = sq;
            return Some(violation(name, json!({"fen": p.fen(), "rights": r, "ep": ep}), Failure::new("key of a set-up is not the XOR of its per-feature constants".to_string())));
        }
        runner_seed = runner_seed.rotate_left(1);
    }
    agg.count("additivity_setups", n as u64);
    None
}

fn ensure_v(ok: bool) -> Option<()> {
    if ok {
        Some(())
    } else {
        eprintln!("INCONCLUSIVE: set-up API did not produce the requested rights set");
        std::process::exit(2);
    }
}

// ------------------------------------------------------------------ draws of the table generator

/// Parse the integer literals of each `pub const NAME ... = [...]` block of a generated file.
pub fn parse_tables(text: &str) -> BTreeMap<String, Vec<u64>> {
    let mut out: BTreeMap<String, Vec<u64>> = BTreeMap::new();
    let mut current: Option<String> = None;
    for line in text.lines() {
        let line = line.split("//").next().unwrap_or("");
        let mut body = line;
        if let Some(idx) = line.find("pub const ") {
            let rest = &line[idx + 10..];
            let name: String = rest.chars().take_while(|c| c.is_alphanumeric() || *c == '_').collect();
            current = Some(name.clone());
            out.entry(name).or_default();
            body = match line.find('=') {
                Some(e) => &line[e + 1..],
                None => "",
            };
        }
        if let Some(name) = &current {
            let mut num = String::new();
            for ch in body.chars().chain(std::iter::once(' ')) {
                if ch.is_ascii_digit() {
                    num.push(ch);
                } else {
                    if !num.is_empty() {
                        if let Ok(v) = num.parse::<u64>() {
                            out.get_mut(name).unwrap().push(v);
                        }
                        num.clear();
                    }
                }
            }
        }
    }
    out
}

fn run_draws(env: &Env, agg: &mut Stats) -> Option<Violation> {
    let name = "C05/table-draws";
    let n = env.tier.pick(600, 2_000);
    let dir = "/verif/target/scratch";
    let _ = std::fs::create_dir_all(dir);
    let path = format!("{}/zobrist_draw_{}.rs", dir, std::process::id());
    for i in 0..n {
        {
            let f = std::fs::File::create(&path).expect("scratch file");
            let mut w = std::io::BufWriter::new(f);
            if let Err(e) = precompile::zobrist::write_zobrist_tables(&mut w) {
                eprintln!("INCONCLUSIVE: table generator I/O error {}", e);
                std::process::exit(2);
            }
        }
        let text = std::fs::read_to_string(&path).unwrap_or_default();
        let t = parse_tables(&text);
        agg.eval();
        let pieces = t.get("ZOBRIST_PIECES_TABLE").cloned().unwrap_or_default();
        let rights = t.get("ZOBRIST_CASTLING_RIGHTS_TABLE").cloned().unwrap_or_default();
        let ep = t.get("ZOBRIST_EN_PASSANT_TABLE").cloned().unwrap_or_default();
        let bad = |msg: String| Some(violation(name, json!({"draw": i}), Failure::new(msg)));
        if pieces.len() != 768 || rights.len() != 16 || ep.len() != 64 {
            return bad(format!(
                "draw {}: table sizes {}/{}/{} (expected 768/16/64)",
                i,
                pieces.len(),
                rights.len(),
                ep.len()
            ));
        }
        let distinct = |v: &[u64]| v.iter().collect::<HashSet<_>>().len() == v.len();
        if pieces.iter().any(|x| *x == 0) || !distinct(&pieces) {
            return bad(format!("draw {}: piece key table has a zero or repeated entry", i));
        }
        if ep.iter().any(|x| *x == 0) || !distinct(&ep) {
            return bad(format!("draw {}: ep key table has a zero or repeated entry", i));
        }
        if !distinct(&rights) {
            return bad(format!("draw {}: castling-rights key table has a repeated entry", i));
        }
        let all: Vec<u64> = pieces.iter().chain(rights.iter()).chain(ep.iter()).cloned().collect();
        if !distinct(&all) {
            return bad(format!("draw {}: an entry is shared between the piece, castling-rights and en-passant key tables", i));
        }
        // entropy sanity: a generator that truncates values shows up as small maxima
        let maxbits = pieces.iter().map(|x| 64 - x.leading_zeros()).max().unwrap_or(0);
        if maxbits < 60 {
            return bad(format!("draw {}: all piece keys fit in {} bits", i, maxbits));
        }
        agg.nontrivial(fnv(text.as_bytes()), || json!({"draw": i, "first_piece_key": pieces[0], "first_ep_key": ep[0]}));
    }
    let _ = std::fs::remove_file(&path);
    None
}

fn replay_none(_: &Value) -> Result<TestResult, String> {
    Err("deterministic enumeration: re-run the check".into())
}

pub fn checks() -> Vec<Box<dyn DynCheck>> {
    vec![
        Box::new(C05Histories),
        Box::new(super::hist::C05Marathon),
        Box::new(Setups),
        Box::new(FnCheck {
            name: "C05/constants",
            run: run_constants,
            replay: replay_none,
        }),
        Box::new(FnCheck {
            name: "C05/table-draws",
            run: run_draws,
            replay: replay_none,
        }),
    ]
}

#[allow(dead_code)]
fn _unused(_: &gen::RawPos) {}
