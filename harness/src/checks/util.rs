//! Helpers shared by the per-property checks.

use crate::bridge::*;
use crate::oracle::*;
use crate::runner::*;
use chess::board::Board;
use chess::move_generator::MoveGenerator;
use serde_json::{json, Value};

pub fn engine_moves(gen: &mut MoveGenerator, board: &mut Board, side: Side) -> Vec<Mv> {
    let list = gen.generate_moves(board, to_color(side));
    let mut v: Vec<Mv> = list.iter().map(mv_of).collect();
    v.sort();
    v
}

/// Multiset comparison of the engine's list with the reference list (both sorted).
pub fn compare_moves(engine: &[Mv], reference: &[Mv]) -> Result<(), String> {
    if engine == reference {
        return Ok(());
    }
    let missing: Vec<Mv> = reference.iter().filter(|m| !engine.contains(m)).cloned().collect();
    let extra: Vec<Mv> = engine.iter().filter(|m| !reference.contains(m)).cloned().collect();
    let mut dups = Vec::new();
    for w in engine.windows(2) {
        if w[0] == w[1] {
            dups.push(w[0]);
        }
    }
    Err(format!(
        "missing [{}] extra [{}] duplicated [{}]",
        mvs_text(&missing),
        mvs_text(&extra),
        mvs_text(&dups)
    ))
}

pub fn pos_sample(pos: &Pos, labels: &[&str]) -> Value {
    json!({"fen": pos.fen(), "labels": labels})
}

pub fn fail_pos(msg: String, pos: &Pos) -> Failure {
    Failure::new(msg).with(json!({"fen": pos.fen()}))
}

/// A simple check that is not driven by proptest (exhaustive enumerations, CLI drivers).
pub struct FnCheck {
    pub name: &'static str,
    pub run: fn(&Env, &mut Stats) -> Option<Violation>,
    pub replay: fn(&Value) -> Result<TestResult, String>,
}

impl DynCheck for FnCheck {
    fn name(&self) -> &'static str {
        self.name
    }
    fn run(&self, env: &Env, agg: &mut Stats) -> Option<Violation> {
        (self.run)(env, agg)
    }
    fn replay(&self, case: &Value) -> Result<TestResult, String> {
        (self.replay)(case)
    }
}

pub fn violation(check: &str, case: Value, f: Failure) -> Violation {
    Violation {
        check: check.to_string(),
        msg: f.msg,
        case,
        detail: f.detail,
    }
}
