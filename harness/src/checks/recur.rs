//! Recurrence games: ONE Game object is driven the way the human-v-computer loop drives it
//! (verdict asked, labels listed, the engine asked or made to move, moves typed as labels or as
//! coordinate pairs, play going on after a draw has been announced) through generated games
//! that are built from *recurrence segments* found by search on the reference rules:
//!
//! * `Cycle`: a four-ply out-and-back (a reversible move, a reversible reply, both taken back)
//!   played 1..5 times, so that positions occur two to five times and, in perpetual-check
//!   geometries, a side has exactly one legal move that completes a repetition;
//! * `TempoFlip`: five plies (a piece of the mover goes round a triangle while the other side
//!   goes out and back) after which the same placement, rights and en-passant state stand on
//!   the board with the OTHER side to move;
//! * plain moves, quiet moves and moves made by the engine in between.
//!
//! The same interpreter is registered under several properties; each registration judges only
//! what its property states (the other calls are still made, since their side effects on the
//! Game - caches, memos, registrations - are what the histories are about).

use super::util::*;
use crate::bridge::*;
use crate::gen;
use crate::oracle::notation;
use crate::oracle::*;
use crate::runner::*;
use chess::evaluate::GameEnding;
use chess::game::game::Game;
use proptest::prelude::*;
use serde::{Deserialize, Serialize};
use serde_json::json;
use std::collections::BTreeMap;

#[derive(Clone, Debug, Serialize, Deserialize, PartialEq)]
pub enum GOp {
    Move(u16),
    Quiet(u16),
    /// selector, number of rounds (1..=5)
    Cycle(u16, u8),
    TempoFlip(u16),
    /// the engine makes the move through the Game
    Engine,
}

#[derive(Clone, Debug, Serialize, Deserialize)]
pub struct RecCase {
    pub fen: String,
    pub half: u8,
    pub ops: Vec<GOp>,
    /// bit i: at plies with index = i (mod 8) the game-over verdict is asked
    pub ask_mask: u8,
    /// the same for the label listing and for asking the engine without playing
    pub list_mask: u8,
    pub engine_mask: u8,
    pub depth: u8,
}

#[derive(Clone, Copy, Default)]
pub struct Judge {
    /// C03: squares, rights, en-passant target after every move; the turn is left to the caller
    pub successor: bool,
    /// C05: key of the game's board == key of the same position set up from scratch
    pub key: bool,
    /// C12: structural invariants of the game's board after every move
    pub invariants: bool,
    /// C13: listed labels
    pub listing: bool,
    /// C14: a typed label plays its move
    pub typed: bool,
    /// C15 / C07: the engine answers with a legal move whenever one exists
    pub engine: bool,
    /// C16: half-move clock and the draw verdict that depends on it
    pub clock: bool,
    /// C17: the draw verdict that depends on occurrences
    pub counts: bool,
}

fn reversible(pos: &Pos, m: &Mv) -> bool {
    m.kind == Kind::Std && m.cap.is_none() && pos.sq[m.from as usize].map(|x| x.0) != Some(P::Pawn)
}

fn reverse_of(pos: &Pos, legal: &[Mv], m: &Mv) -> Option<Mv> {
    legal.iter().find(|x| x.from == m.to && x.to == m.from && reversible(pos, x)).copied()
}

/// `b` is where the segment started: a pending en-passant target there has expired by the time
/// the placement comes back (a look-alike, not a repetition - just what stale caches confuse).
fn same_position(a: &Pos, b: &Pos) -> bool {
    a.sq == b.sq && a.side == b.side && a.rights == b.rights && (a.ep == b.ep || (a.ep.is_none() && b.ep.is_some()))
}

/// A reversible move, a reversible reply and both moves back, ending in the starting position.
/// With `forced_first` the search starts with moves that leave the opponent exactly one reply.
pub fn find_cycle(p: &Pos, sel: u16) -> Option<[Mv; 4]> {
    let mut la: Vec<Mv> = p.legal_moves().into_iter().filter(|m| reversible(p, m)).collect();
    if la.is_empty() {
        return None;
    }
    let rot = (sel & 0xff) as usize % la.len();
    la.rotate_left(rot);
    if sel & 0x8000 != 0 {
        // perpetual-check geometries first
        la.sort_by_key(|a| {
            let p1 = p.make(a);
            if p1.in_check(p1.side) {
                p1.legal_moves().len()
            } else {
                99
            }
        });
    }
    for a in la.iter().take(12) {
        let p1 = p.make(a);
        let mut qx: Vec<Mv> = p1.legal_moves().into_iter().filter(|m| reversible(&p1, m)).collect();
        if qx.is_empty() {
            continue;
        }
        let r2 = ((sel >> 8) & 0x3f) as usize % qx.len();
        qx.rotate_left(r2);
        for x in qx.iter().take(12) {
            let p2 = p1.make(x);
            let l2 = p2.legal_moves();
            let Some(a2) = reverse_of(&p2, &l2, a) else { continue };
            let p3 = p2.make(&a2);
            let l3 = p3.legal_moves();
            let Some(x2) = reverse_of(&p3, &l3, x) else { continue };
            let p4 = p3.make(&x2);
            if same_position(&p4, p) {
                return Some([*a, *x, a2, x2]);
            }
        }
    }
    None
}

/// Five plies after which the same placement / rights stand with the other side to move: one
/// piece of the mover goes A -> B -> C -> A while the opponent goes out and back.
pub fn find_tempo_flip(p: &Pos, sel: u16) -> Option<[Mv; 5]> {
    let mut la: Vec<Mv> = p.legal_moves().into_iter().filter(|m| reversible(p, m)).collect();
    if la.is_empty() {
        return None;
    }
    let rot = (sel & 0xff) as usize % la.len();
    la.rotate_left(rot);
    for a1 in la.iter().take(16) {
        let p1 = p.make(a1);
        let mut ly: Vec<Mv> = p1.legal_moves().into_iter().filter(|m| reversible(&p1, m)).collect();
        if ly.is_empty() {
            continue;
        }
        let r2 = ((sel >> 8) & 0x3f) as usize % ly.len();
        ly.rotate_left(r2);
        for y in ly.iter().take(6) {
            let p2 = p1.make(y);
            let l2 = p2.legal_moves();
            for a2 in l2.iter().filter(|m| m.from == a1.to && m.to != a1.from && reversible(&p2, m)) {
                let p3 = p2.make(a2);
                let l3 = p3.legal_moves();
                let Some(y2) = reverse_of(&p3, &l3, y) else { continue };
                let p4 = p3.make(&y2);
                let l4 = p4.legal_moves();
                let Some(a3) = l4.iter().find(|m| m.from == a2.to && m.to == a1.from && reversible(&p4, m)) else {
                    continue;
                };
                let p5 = p4.make(a3);
                if p5.sq == p.sq && p5.rights == p.rights && p5.ep.is_none() && p5.side != p.side {
                    return Some([*a1, *y, *a2, y2, *a3]);
                }
            }
        }
    }
    None
}

type Key = (Vec<Option<(P, Side)>>, Side, u8, Option<u8>);
fn key_literal(p: &Pos) -> Key {
    (p.sq.to_vec(), p.side, p.rights, p.ep)
}
fn key_fide(p: &Pos) -> Key {
    let ep = if p.legal_moves().iter().any(|m| m.kind == Kind::Ep) { p.ep } else { None };
    (p.sq.to_vec(), p.side, p.rights, ep)
}

pub struct RecurrenceGames {
    pub name: &'static str,
    pub judge: Judge,
}

struct Run<'a> {
    game: Game,
    cur: Pos,
    lit: BTreeMap<Key, u32>,
    fide: BTreeMap<Key, u32>,
    ply: usize,
    case: &'a RecCase,
    judge: Judge,
    history: Vec<String>,
    max_count: u32,
    flipped_lookalike: bool,
    placements: BTreeMap<Vec<Option<(P, Side)>>, u8>,
    forced_repetition_asked: bool,
    past_draw: bool,
    drawn_once: bool,
    stop: bool,
    /// searches left in this game (asked or made)
    engine_budget: u32,
}

impl<'a> Run<'a> {
    fn counts(&self) -> (u32, u32) {
        (
            self.lit.get(&key_literal(&self.cur)).copied().unwrap_or(0),
            self.fide.get(&key_fide(&self.cur)).copied().unwrap_or(0),
        )
    }

    fn ctx(&self) -> String {
        format!("ply {} of a game on one Game object (moves so far: {})", self.ply + 1, self.history.join(" "))
    }

    /// What the loops do before every move: verdict, listing, engine.
    fn before_move(&mut self, st: &mut Stats) -> TestResult {
        let legal = self.cur.legal_moves();
        if legal.is_empty() {
            self.stop = true;
            return Ok(());
        }
        let bit = 1u8 << (self.ply % 8);
        let (a, b) = self.counts();
        if self.case.ask_mask & bit != 0 {
            let ending = match no_panic(|| self.game.check_game_over_for_current_turn()) {
                Ok(e) => e,
                Err(m) => {
                    if self.judge.clock || self.judge.counts {
                        return Err(fail_pos(format!("{}: check_game_over_for_current_turn panicked: {}", self.ctx(), m), &self.cur));
                    }
                    None
                }
            };
            let is_draw = matches!(ending, Some(GameEnding::Draw));
            st.count("verdicts_asked", 1);
            if a == b {
                let want = a >= 3 || self.cur.half >= 100;
                // the property speaks of the THIRD occurrence; what is reported at a fourth or
                // fifth one (the engine tests `== 3`) is not stated and not asserted
                let mine = (self.judge.clock && a < 3) || (self.judge.counts && self.cur.half < 100 && a <= 3);
                if a > 3 {
                    st.count("verdicts_beyond_third_occurrence_not_asserted", 1);
                }
                if mine && (is_draw != want || (!want && ending.is_some())) {
                    return Err(fail_pos(
                        format!(
                            "{}: check_game_over_for_current_turn() = {:?}; the position has occurred {} time(s), the half-move clock is {}, legal moves exist",
                            self.ctx(),
                            ending,
                            a,
                            self.cur.half
                        ),
                        &self.cur,
                    ));
                }
                if want {
                    self.drawn_once = true;
                }
            }
        }
        if self.case.list_mask & bit != 0 {
            match no_panic(|| self.game.enumerated_candidate_moves()) {
                Ok(listed) => {
                    st.count("listings", 1);
                    if self.judge.listing {
                        let got: Vec<(Mv, String)> = listed.iter().map(|(m, s)| (mv_of(m), s.clone())).collect();
                        let mut scratch = Stats::default();
                        super::pos::check_labels(&self.cur, &got, &mut scratch, &format!("Game::enumerated_candidate_moves at {}", self.ctx()))?;
                    }
                }
                Err(m) => {
                    if self.judge.listing {
                        return Err(fail_pos(format!("{}: listing the moves panicked: {}", self.ctx(), m), &self.cur));
                    }
                }
            }
        }
        if self.case.engine_mask & bit != 0 && legal.len() <= 24 && self.engine_budget > 0 {
            self.engine_budget -= 1;
            let before = snapshot(self.game.board());
            let r = no_panic(|| self.game.select_alpha_beta_best_move());
            st.count("engine_asked", 1);
            let forced_rep = legal.len() == 1 && {
                let n = self.cur.make(&legal[0]);
                self.lit.get(&key_literal(&n)).copied().unwrap_or(0) >= 2
            };
            if forced_rep {
                self.forced_repetition_asked = true;
            }
            if self.judge.engine {
                match r {
                    Ok(Ok(m)) => {
                        let got = mv_of(&m);
                        if !legal.contains(&got) {
                            return Err(fail_pos(format!("{}: the engine proposes {}, which is not a legal move of the side to move", self.ctx(), mv_text(&got)), &self.cur));
                        }
                    }
                    Ok(Err(e)) => {
                        return Err(fail_pos(
                            format!("{}: the engine answered {:?} although {} legal move(s) exist (position occurred {} time(s), clock {})", self.ctx(), e, legal.len(), a, self.cur.half),
                            &self.cur,
                        ))
                    }
                    Err(m) => return Err(fail_pos(format!("{}: asking the engine panicked: {}", self.ctx(), m), &self.cur)),
                }
                if let Some(d) = snapshot_diff(&before, &snapshot(self.game.board())) {
                    return Err(fail_pos(format!("{}: asking for the engine's move changed the board: {}", self.ctx(), d), &self.cur));
                }
            }
        }
        Ok(())
    }

    fn after_move(&mut self, m: &Mv, st: &mut Stats) -> TestResult {
        let next = self.cur.make(m);
        let got = from_board(self.game.board());
        if self.judge.successor {
            if got.sq != next.sq {
                let s = (0..64).find(|&s| got.sq[s] != next.sq[s]).unwrap();
                return Err(fail_pos(
                    format!("{}: after {} square {} holds {:?}, the rules say {:?}", self.ctx(), mv_text(m), sq_name(s as u8), got.sq[s], next.sq[s]),
                    &self.cur,
                ));
            }
            if got.rights != next.rights || got.ep != next.ep {
                return Err(fail_pos(
                    format!("{}: after {} rights {:04b} / ep {:?}, the rules say {:04b} / {:?}", self.ctx(), mv_text(m), got.rights, got.ep.map(sq_name), next.rights, next.ep.map(sq_name)),
                    &self.cur,
                ));
            }
            if got.side != self.cur.side {
                return Err(fail_pos(
                    format!("{}: making {} through the Game changed whose turn it is (callers flip the turn)", self.ctx(), mv_text(m)),
                    &self.cur,
                ));
            }
        }
        if self.judge.clock && got.half != next.half {
            return Err(fail_pos(
                format!("{}: after {} the half-move clock is {}, {} plies have passed since the last capture or pawn move", self.ctx(), mv_text(m), got.half, next.half),
                &self.cur,
            ));
        }
        // the caller flips the turn; if the Game left it wrong the model's side is imposed so
        // that a property that does not judge the turn can go on
        self.game.board_mut().toggle_turn();
        if from_board(self.game.board()).side != next.side {
            if self.judge.successor || self.judge.invariants {
                return Err(fail_pos(format!("{}: after {} and the caller's toggle the turn is wrong", self.ctx(), mv_text(m)), &self.cur));
            }
            self.stop = true;
        }
        self.history.push(notation::uci(m));
        self.cur = next;
        self.ply += 1;
        st.count("game_moves", 1);
        if self.judge.invariants {
            if let Err(e) = crate::history::check_invariants(self.game.board()) {
                return Err(fail_pos(format!("{}: board invariant broken: {}", self.ctx(), e), &self.cur));
            }
            let g2 = from_board(self.game.board());
            let kings = |s: Side| g2.sq.iter().filter(|x| **x == Some((P::King, s))).count();
            if kings(Side::White) != 1 || kings(Side::Black) != 1 {
                return Err(fail_pos(format!("{}: {} white and {} black kings on the board", self.ctx(), kings(Side::White), kings(Side::Black)), &self.cur));
            }
        }
        if self.judge.key {
            let mut scratch = self.cur.clone();
            scratch.half = 0;
            let want = to_board(&scratch).current_position_hash();
            let have = self.game.board().current_position_hash();
            if want != have {
                return Err(fail_pos(
                    format!("{}: the key of the game's board is {:016x}, the same position set up from scratch has {:016x}", self.ctx(), have, want),
                    &self.cur,
                ));
            }
        }
        let a = {
            let e = self.lit.entry(key_literal(&self.cur)).or_insert(0);
            *e += 1;
            *e
        };
        *self.fide.entry(key_fide(&self.cur)).or_insert(0) += 1;
        self.max_count = self.max_count.max(a);
        let seen = self.placements.entry(self.cur.sq.to_vec()).or_insert(0);
        let me = if self.cur.side == Side::White { 1 } else { 2 };
        if *seen & !me != 0 {
            self.flipped_lookalike = true;
        }
        *seen |= me;
        if self.drawn_once {
            self.past_draw = true;
        }
        // a fifth occurrence or a clock of 150 ends every legal game
        if a >= 5 || self.cur.half >= 149 || self.ply >= 160 {
            self.stop = true;
        }
        Ok(())
    }

    /// Make `m` through the Game: by label on even plies, by coordinate pair otherwise.
    fn play(&mut self, m: &Mv, st: &mut Stats) -> TestResult {
        self.before_move(st)?;
        if self.stop {
            return Ok(());
        }
        self.play_after_before(m, st)
    }

    fn play_after_before(&mut self, m: &Mv, st: &mut Stats) -> TestResult {
        let legal = self.cur.legal_moves();
        debug_assert!(legal.contains(m));
        let by_label = self.ply % 2 == 0 || (m.kind == Kind::Promo && m.promo != Some(P::Queen));
        let mut played: Option<Mv> = None;
        if by_label {
            let label = notation::san(&self.cur, m, &legal);
            match no_panic(|| self.game.apply_chess_move_from_raw_algebraic_notation(label.clone())) {
                Ok(Ok(pm)) => played = Some(mv_of(&pm)),
                Ok(Err(e)) => {
                    if self.judge.typed {
                        return Err(fail_pos(format!("{}: the standard label {:?} of {} was rejected: {:?}", self.ctx(), label, mv_text(m), e), &self.cur));
                    }
                }
                Err(pm) => {
                    if self.judge.typed {
                        return Err(fail_pos(format!("{}: typing {:?} panicked: {}", self.ctx(), label, pm), &self.cur));
                    }
                }
            }
            if let Some(p) = played {
                if p != *m {
                    if self.judge.typed {
                        return Err(fail_pos(format!("{}: typed {:?} ({}) but the game played {}", self.ctx(), label, mv_text(m), mv_text(&p)), &self.cur));
                    }
                    // another move was made: the model cannot follow a game the property under
                    // test does not judge
                    return self.blind_continue(st);
                }
            }
        }
        if played.is_none() {
            let want = if m.kind == Kind::Promo { Mv { promo: Some(P::Queen), ..*m } } else { *m };
            if !legal.contains(&want) {
                self.stop = true;
                return Ok(());
            }
            match no_panic(|| self.game.apply_chess_move_by_from_to_coordinates(bb(want.from), bb(want.to))) {
                Ok(Ok(pm)) => {
                    let p = mv_of(&pm);
                    if p != want {
                        if self.judge.typed || self.judge.successor {
                            return Err(fail_pos(format!("{}: the pair {}{} played {} instead of {}", self.ctx(), sq_name(want.from), sq_name(want.to), mv_text(&p), mv_text(&want)), &self.cur));
                        }
                        self.stop = true;
                        return Ok(());
                    }
                    return self.after_move(&want, st);
                }
                Ok(Err(e)) => {
                    if self.judge.typed || self.judge.successor {
                        return Err(fail_pos(format!("{}: the legal move {} was rejected by the game: {:?}", self.ctx(), mv_text(&want), e), &self.cur));
                    }
                    self.stop = true;
                    return Ok(());
                }
                Err(pm) => {
                    return Err(fail_pos(format!("{}: making the legal move {} panicked: {}", self.ctx(), mv_text(&want), pm), &self.cur));
                }
            }
        }
        self.after_move(m, st)
    }

    /// The Game has made a move the reference cannot follow (not a move of the side to move).
    /// A property that judges only the board's invariants goes on blindly, as a user would:
    /// it takes what the Game lists (captures first, a king capture before all) and plays it.
    fn blind_continue(&mut self, st: &mut Stats) -> TestResult {
        self.stop = true;
        if !self.judge.invariants {
            return Ok(());
        }
        st.label("game-left-the-legal-tree(blind-continuation)");
        self.game.board_mut().toggle_turn();
        for step in 0..8 {
            let listed = match no_panic(|| self.game.enumerated_candidate_moves()) {
                Ok(l) => l,
                Err(m) => return Err(fail_pos(format!("{}: {} plies after the Game made a move of the side not to move, listing panicked: {}", self.ctx(), step, m), &self.cur)),
            };
            let pick = listed
                .iter()
                .map(|(m, _)| m.clone())
                .min_by_key(|m| match mv_of(m).cap {
                    Some(P::King) => 0,
                    Some(_) => 1,
                    None => 2,
                });
            let Some(m) = pick else { break };
            if let Err(e) = no_panic(|| self.game.apply_chess_move(m.clone())) {
                return Err(fail_pos(format!("{}: {} plies after the Game made a move of the side not to move, a listed move panicked: {}", self.ctx(), step, e), &self.cur));
            }
            self.game.board_mut().toggle_turn();
            if let Err(e) = crate::history::check_invariants(self.game.board()) {
                return Err(fail_pos(format!("{}: {} plies later (moves taken from the Game's own listing) a board invariant is broken: {}", self.ctx(), step + 1, e), &self.cur));
            }
            let g2 = from_board(self.game.board());
            let kings = |s: Side| g2.sq.iter().filter(|x| **x == Some((P::King, s))).count();
            if kings(Side::White) != 1 || kings(Side::Black) != 1 {
                return Err(fail_pos(
                    format!("{}: {} plies later (moves taken from the Game's own listing, last {}) there are {} white and {} black kings", self.ctx(), step + 1, mv_text(&mv_of(&m)), kings(Side::White), kings(Side::Black)),
                    &self.cur,
                ));
            }
        }
        Ok(())
    }

    fn engine_move(&mut self, st: &mut Stats) -> TestResult {
        self.before_move(st)?;
        if self.stop {
            return Ok(());
        }
        let legal = self.cur.legal_moves();
        if legal.len() > 24 || self.engine_budget == 0 {
            let m = legal[0];
            return self.play_after_before(&m, st);
        }
        self.engine_budget -= 1;
        match no_panic(|| self.game.make_alpha_beta_best_move()) {
            Ok(Ok(pm)) => {
                let m = mv_of(&pm);
                st.count("engine_made_moves", 1);
                if !legal.contains(&m) {
                    if self.judge.engine || self.judge.successor {
                        return Err(fail_pos(format!("{}: the engine made {}, which is not a legal move of the side to move", self.ctx(), mv_text(&m)), &self.cur));
                    }
                    return self.blind_continue(st);
                }
                self.after_move(&m, st)
            }
            Ok(Err(e)) => {
                if self.judge.engine {
                    return Err(fail_pos(format!("{}: the engine could not make a move ({:?}) although {} legal move(s) exist", self.ctx(), e, legal.len()), &self.cur));
                }
                self.stop = true;
                Ok(())
            }
            Err(pm) => {
                if self.judge.engine || self.judge.invariants {
                    return Err(fail_pos(format!("{}: making the engine's move panicked: {}", self.ctx(), pm), &self.cur));
                }
                self.stop = true;
                Ok(())
            }
        }
    }
}

pub fn rec_seed() -> BoxedStrategy<String> {
    let zero = |mut p: Pos| {
        p.half = 0;
        p.fen()
    };
    prop_oneof![
        5 => gen::endgame(3).prop_map(move |r| zero(gen::build(&r))),
        2 => gen::endgame(5).prop_map(move |r| zero(gen::build(&r))),
        2 => gen::pin_check_theme().prop_map(move |r| zero(gen::build(&r))),
        2 => gen::cage_theme().prop_map(move |r| zero(gen::build(&r))),
        1 => gen::mating_material(),
        2 => gen::perpetual_theme(),
        1 => gen::castle_theme().prop_map(move |r| zero(gen::build(&r))),
        // handed over right after a double step: an en-passant target is pending
        1 => gen::ep_theme().prop_map(move |r| zero(gen::build(&r))),
        1 => gen::pawn_race().prop_map(move |r| zero(gen::build(&r))),
        1 => Just(STANDARD[0].1.to_string()),
    ]
    .boxed()
}

pub fn rec_case() -> BoxedStrategy<RecCase> {
    (
        rec_seed(),
        prop_oneof![3 => Just(0u8), 1 => 0u8..90, 2 => 88u8..100],
        prop::collection::vec(
            prop_oneof![
                3 => any::<u16>().prop_map(GOp::Move),
                4 => any::<u16>().prop_map(GOp::Quiet),
                6 => (any::<u16>(), 1u8..=5).prop_map(|(s, k)| GOp::Cycle(s, k)),
                3 => any::<u16>().prop_map(GOp::TempoFlip),
                3 => Just(GOp::Engine),
            ],
            1..14,
        ),
        prop_oneof![2 => Just(0xffu8), 1 => any::<u8>(), 1 => Just(0u8)],
        prop_oneof![2 => Just(0xffu8), 1 => any::<u8>(), 1 => Just(0u8)],
        prop_oneof![1 => Just(0xffu8), 3 => any::<u8>(), 2 => (0u8..8).prop_map(|b| 1u8 << b), 1 => Just(0u8)],
        prop_oneof![5 => Just(1u8), 3 => Just(2u8), 1 => Just(3u8)],
    )
        .prop_map(|(fen, half, ops, ask_mask, list_mask, engine_mask, depth)| RecCase {
            fen,
            half,
            ops,
            ask_mask,
            list_mask,
            engine_mask,
            depth,
        })
        .boxed()
}

impl Prop for RecurrenceGames {
    type Case = RecCase;
    fn name(&self) -> &'static str {
        self.name
    }
    fn max_shrink_iters(&self) -> u32 {
        300
    }
    fn strategy(&self, _tier: Tier) -> BoxedStrategy<RecCase> {
        rec_case()
    }
    fn cases(&self, tier: Tier) -> u32 {
        tier.pick(1_000, 12_000)
    }
    fn test(&self, c: &RecCase, st: &mut Stats) -> TestResult {
        let mut start = Pos::from_fen(&c.fen).map_err(Failure::new)?;
        start.half = if start.ep.is_some() { 0 } else { c.half as u32 };
        start.ply = 0;
        let depth = match start.men() {
            0..=3 => c.depth,
            4..=6 => c.depth.min(2),
            _ => 1,
        };
        let game = Game::from_board(to_board(&start), depth);
        let mut run = Run {
            game,
            cur: start.clone(),
            lit: BTreeMap::new(),
            fide: BTreeMap::new(),
            ply: 0,
            case: c,
            judge: self.judge,
            history: Vec::new(),
            max_count: 1,
            flipped_lookalike: false,
            placements: BTreeMap::new(),
            forced_repetition_asked: false,
            past_draw: false,
            drawn_once: false,
            stop: false,
            engine_budget: if depth >= 3 { 10 } else { 28 },
        };
        run.lit.insert(key_literal(&start), 1);
        run.fide.insert(key_fide(&start), 1);
        run.placements.insert(start.sq.to_vec(), if start.side == Side::White { 1 } else { 2 });
        if self.judge.key {
            let mut scratch = start.clone();
            scratch.half = 0;
            let want = to_board(&scratch).current_position_hash();
            let have = run.game.board().current_position_hash();
            if want != have {
                return Err(fail_pos(
                    format!("the key of the board inside Game::from_board is {:016x}, the same position set up from scratch has {:016x}", have, want),
                    &start,
                ));
            }
        }
        let mut cycles = 0u32;
        let mut flips = 0u32;
        'ops: for op in &c.ops {
            if run.stop {
                break;
            }
            let legal = run.cur.legal_moves();
            if legal.is_empty() {
                break;
            }
            match op {
                GOp::Move(s) => {
                    let m = gen::select(&legal, *s);
                    run.play(&m, st)?;
                }
                GOp::Quiet(s) => {
                    let q: Vec<Mv> = legal.iter().filter(|m| reversible(&run.cur, m)).cloned().collect();
                    let m = if q.is_empty() { gen::select(&legal, *s) } else { gen::select(&q, *s) };
                    run.play(&m, st)?;
                }
                GOp::Cycle(s, k) => {
                    if let Some(cy) = find_cycle(&run.cur, *s) {
                        cycles += 1;
                        for _ in 0..*k {
                            for m in &cy {
                                if run.stop {
                                    break 'ops;
                                }
                                run.play(m, st)?;
                            }
                        }
                    } else {
                        let m = gen::select(&legal, *s);
                        run.play(&m, st)?;
                    }
                }
                GOp::TempoFlip(s) => {
                    if let Some(fl) = find_tempo_flip(&run.cur, *s) {
                        flips += 1;
                        for m in &fl {
                            if run.stop {
                                break 'ops;
                            }
                            run.play(m, st)?;
                        }
                    } else {
                        let m = gen::select(&legal, *s);
                        run.play(&m, st)?;
                    }
                }
                GOp::Engine => run.engine_move(st)?,
            }
        }
        // the loops look at the final position too
        if !run.stop {
            run.before_move(st)?;
        }
        if cycles > 0 {
            st.label("out-and-back-cycle");
        }
        if flips > 0 {
            st.label("tempo-flip");
        }
        if run.max_count >= 3 {
            st.label("third-occurrence-or-more");
        }
        if run.max_count >= 5 {
            st.label("fifth-occurrence");
        }
        if run.flipped_lookalike {
            st.label("same-placement-other-side-to-move");
        }
        if run.forced_repetition_asked {
            st.label("engine-asked-when-the-only-move-repeats");
        }
        if run.past_draw {
            st.label("played-on-after-a-draw-verdict");
        }
        if run.max_count >= 2 || run.flipped_lookalike {
            st.nontrivial(fp_of(c), || {
                json!({"seed": start.fen(), "depth": depth, "moves": run.history.join(" "), "max_occurrences": run.max_count, "tempo_flips": flips})
            });
        }
        Ok(())
    }
}

pub const RULE: &str = " Recurrence games: one Game (from_board; tiny endgames, pin/cage/mating set-ups, castle and pending-en-passant set-ups, the standard start; half-move clock 0..99) is driven as the human-v-computer loop drives it - verdict asked, labels listed, engine asked (select) or made to move (make) at generated plies, moves typed alternately as labels and coordinate pairs, play going on after a draw verdict up to a fifth occurrence or a clock of 149 - through segments found by search on the reference rules: four-ply out-and-back cycles played 1..5 times (perpetual-check geometries preferred in half of the cases) and five-ply tempo flips (same placement, other side to move); each registration judges only its own property's observations.";
