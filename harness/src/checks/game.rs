//! Game-layer checks: C14 (typed moves), C15 (engine move / opening book), C17 (repetition).

use super::util::*;
use crate::bridge::*;
use crate::ensure;
use crate::gen;
use crate::oracle::notation;
use crate::oracle::*;
use crate::runner::*;
use chess::board::Board;
use chess::book::{Book, BookMove};
use chess::evaluate::GameEnding;
use chess::game::game::Game;
use proptest::prelude::*;
use rayon::prelude::*;
use serde::{Deserialize, Serialize};
use serde_json::{json, Value};
use std::collections::{BTreeMap, BTreeSet};

// ------------------------------------------------------------------------------ C14

pub const C14_RULE: &str = "positions along generated games driven through Game (apply + toggle_turn as the game loops do; set-up seeds via Game::from_board): at each sampled position ALL 4096 from/to coordinate pairs are submitted (rejections on one Game, each acceptance on its own Game): accepted <=> the reference has a legal move with that from/to; an accepted pair must produce the reference successor (queen for promotions), leave the turn to the caller and make most_recent_move() that move; every reference label of every legal move must be accepted by apply_chess_move_from_raw_algebraic_notation and play exactly that move; near-miss strings (dropped/added 'x', '+', '#', wrong/extra/missing disambiguation, neighbouring targets, changed/removed promotion suffix, lower-case piece letters, labels legal only for the other side or only in the previous position, garbage) are judged three-valued: a string denoting no legal move even under a lenient reading must be rejected, strings in between may go either way but if accepted must play a move they denote; every rejection must leave the full board snapshot and most_recent_move() unchanged. Suffixed and special labels: on thousands of positions biased to checks by en passant / promotion / castling / double steps and to ambiguities, every label with a '+' or '#' or naming a special move is typed and must play its move. Sessions: one Game object is driven through a whole generated game (shuffle-biased policy on tiny and opening positions, so placements recur with either side to move), listing the labels at every turn (compared with the reference), typing moves alternately by label and by coordinate pair and interleaving labels that belong to the other side only (must be rejected without effect). The command-line level is exercised by driving the built `chess pvp` binary over stdin with generated and scripted games (labels incl. castling with check), parsing the printed turn and board. Non-trivial = position offers a promotion, en passant, castle or a notation ambiguity; distinct = position fingerprint.";

#[derive(Clone, Debug, Serialize, Deserialize)]
pub struct TypedCase {
    pub walk: gen::Walk,
}

pub struct C14Typed;

fn snapshot_eq(a: &Snapshot, b: &Snapshot, what: &str, pos: &Pos) -> TestResult {
    if let Some(d) = snapshot_diff(a, b) {
        return Err(fail_pos(format!("{} changed the position although it was rejected: {}", what, d), pos));
    }
    Ok(())
}

fn successor_matches(game: &Game, want: &Pos, turn_before: Side) -> Result<(), String> {
    let got = from_board(game.board());
    if got.sq != want.sq {
        let s = (0..64).find(|&s| got.sq[s] != want.sq[s]).unwrap();
        return Err(format!("square {} holds {:?}, rules say {:?}", sq_name(s as u8), got.sq[s], want.sq[s]));
    }
    if got.rights != want.rights {
        return Err(format!("rights {:04b} vs {:04b}", got.rights, want.rights));
    }
    if got.ep != want.ep {
        return Err(format!("ep {:?} vs {:?}", got.ep, want.ep));
    }
    if got.half != want.half {
        return Err(format!("half-move clock {} vs {}", got.half, want.half));
    }
    if got.side != turn_before {
        return Err("the turn was changed by the game (callers flip it)".into());
    }
    Ok(())
}

/// Near-miss strings derived from the labels of `legal` in `pos`.
fn near_misses(pos: &Pos, legal: &[Mv], prev: Option<&Pos>) -> Vec<String> {
    let mut out: BTreeSet<String> = BTreeSet::new();
    for m in legal {
        let exact = notation::san(pos, m, legal);
        let core = notation::san_core(pos, m, legal);
        out.insert(core.clone());
        out.insert(format!("{}+", core));
        out.insert(format!("{}#", core));
        out.insert(exact.replace('x', ""));
        if !exact.contains('x') && m.kind != Kind::Castle {
            // add a capture mark before the destination
            let dest = sq_name(m.to);
            if let Some(i) = exact.rfind(&dest) {
                out.insert(format!("{}x{}", &exact[..i], &exact[i..]));
            }
        }
        out.insert(exact.to_lowercase());
        if m.kind != Kind::Castle {
            let p = pos.sq[m.from as usize].unwrap().0;
            let letter = notation::piece_letter(p);
            let from = sq_name(m.from);
            let cap = if m.cap.is_some() { "x" } else { "" };
            let suffix = notation::suffix(pos, m);
            let promo = m.promo.map(|pp| format!("={}", notation::piece_letter(pp))).unwrap_or_default();
            if p != P::Pawn {
                // over-, wrong- and under-disambiguated forms
                out.insert(format!("{}{}{}{}{}{}", letter, from, cap, sq_name(m.to), promo, suffix));
                out.insert(format!("{}{}{}{}{}", letter, &from[0..1], cap, sq_name(m.to), suffix));
                out.insert(format!("{}{}{}{}{}", letter, &from[1..2], cap, sq_name(m.to), suffix));
                out.insert(format!("{}{}{}{}", letter, cap, sq_name(m.to), suffix));
                let wrong_file = (b'a' + (m.from % 8 + 1) % 8) as char;
                out.insert(format!("{}{}{}{}{}", letter, wrong_file, cap, sq_name(m.to), suffix));
                let wrong_rank = (b'1' + (m.from / 8 + 1) % 8) as char;
                out.insert(format!("{}{}{}{}{}", letter, wrong_rank, cap, sq_name(m.to), suffix));
            }
            // neighbouring targets
            for d in [1i8, -1, 8, -8] {
                let t = m.to as i8 + d;
                if (0..64).contains(&t) {
                    out.insert(exact.replace(&sq_name(m.to), &sq_name(t as u8)));
                }
            }
            if m.promo.is_some() {
                out.insert(exact.replace(&promo, ""));
                out.insert(exact.replace(&promo, "=K"));
                out.insert(exact.replace(&promo, "=P"));
                for alt in ["=Q", "=R", "=B", "=N"] {
                    out.insert(exact.replace(&promo, alt));
                }
            } else if p == P::Pawn {
                out.insert(format!("{}=Q", core));
            }
        }
    }
    // labels of the other side and of the previous position
    let mut other = pos.clone();
    other.side = pos.side.other();
    other.ep = None;
    if other.consistent().is_ok() {
        let ol = other.legal_moves();
        for m in ol.iter().take(12) {
            out.insert(notation::san(&other, m, &ol));
        }
    }
    if let Some(prev) = prev {
        let pl = prev.legal_moves();
        for m in pl.iter().take(12) {
            out.insert(notation::san(prev, m, &pl));
        }
    }
    for g in ["", " ", "e9", "i4", "Zf3", "O-O-O-O", "0-0", "o-o", "Ke1e2e3", "e2e4", "--", "Nxx5", "♞f3"] {
        out.insert(g.to_string());
    }
    out.into_iter().collect()
}

/// Every exact label must be accepted and play its move (used for clock variants).
fn c14_labels_only(pos: &Pos, st: &mut Stats, suffixed_only: bool) -> Result<u32, Failure> {
    let legal = pos.legal_moves();
    let mut n = 0;
    for m in &legal {
        let label = notation::san(pos, m, &legal);
        if suffixed_only && !(label.ends_with('+') || label.ends_with('#') || m.kind != Kind::Std) {
            continue;
        }
        n += 1;
        let mut g2 = Game::from_board(to_board(pos), 1);
        st.count("exact_labels", 1);
        match g2.apply_chess_move_from_raw_algebraic_notation(label.clone()) {
            Err(e) => {
                return Err(fail_pos(
                    format!("the standard label {:?} of the legal move {} was rejected: {:?}", label, mv_text(m), e),
                    pos,
                ))
            }
            Ok(em) => {
                let got = mv_of(&em);
                if got != *m {
                    return Err(fail_pos(format!("label {:?} played {} instead of {}", label, mv_text(&got), mv_text(m)), pos));
                }
            }
        }
    }
    Ok(n)
}

fn c14_position(pos: &Pos, prev: Option<&Pos>, st: &mut Stats) -> TestResult {
    let legal = pos.legal_moves();
    let mut labels: Vec<&'static str> = Vec::new();
    if legal.iter().any(|m| m.kind == Kind::Promo) {
        labels.push("promotion");
    }
    if legal.iter().any(|m| m.kind == Kind::Ep) {
        labels.push("en-passant");
    }
    if legal.iter().any(|m| m.kind == Kind::Castle) {
        labels.push("castle");
    }
    if super::pos::ambiguity_labels(pos, &legal).iter().any(|l| l.starts_with("ambiguity")) {
        labels.push("notation-ambiguity");
    }
    for l in &labels {
        st.label(l);
    }
    if !labels.is_empty() {
        st.nontrivial(pos.fingerprint(), || pos_sample(pos, &labels));
    }

    // one game takes every rejection
    let mut game = Game::from_board(to_board(pos), 1);
    let before = snapshot(game.board());
    let recent_before = game.most_recent_move().map(|m| mv_of(&m));
    for from in 0..64u8 {
        for to in 0..64u8 {
            // the first legal move with that from/to in the reference (queen for promotions)
            let denoted: Vec<&Mv> = legal.iter().filter(|m| m.from == from && m.to == to).collect();
            st.count("coordinate_pairs", 1);
            if denoted.is_empty() {
                let r = game.apply_chess_move_by_from_to_coordinates(bb(from), bb(to));
                if let Ok(m) = &r {
                    return Err(fail_pos(
                        format!("coordinate pair {}{} was accepted (as {}) but names no legal move", sq_name(from), sq_name(to), mv_text(&mv_of(m))),
                        pos,
                    ));
                }
                snapshot_eq(&before, &snapshot(game.board()), &format!("rejected pair {}{}", sq_name(from), sq_name(to)), pos)?;
                ensure!(
                    game.most_recent_move().map(|m| mv_of(&m)) == recent_before,
                    "rejected pair {}{} changed the move history in {}",
                    sq_name(from),
                    sq_name(to),
                    pos.fen()
                );
            } else {
                let want_mv = if denoted[0].kind == Kind::Promo {
                    **denoted.iter().find(|m| m.promo == Some(P::Queen)).unwrap()
                } else {
                    *denoted[0]
                };
                let mut g2 = Game::from_board(to_board(pos), 1);
                let r = g2.apply_chess_move_by_from_to_coordinates(bb(from), bb(to));
                match r {
                    Err(e) => {
                        return Err(fail_pos(
                            format!("coordinate pair {}{} names the legal move {} but was rejected: {:?}", sq_name(from), sq_name(to), mv_text(&want_mv), e),
                            pos,
                        ))
                    }
                    Ok(m) => {
                        let got = mv_of(&m);
                        if got != want_mv {
                            return Err(fail_pos(
                                format!("coordinate pair {}{} played {} instead of {}", sq_name(from), sq_name(to), mv_text(&got), mv_text(&want_mv)),
                                pos,
                            ));
                        }
                        if let Err(e) = successor_matches(&g2, &pos.make(&want_mv), pos.side) {
                            return Err(fail_pos(format!("after accepted pair {}{}: {}", sq_name(from), sq_name(to), e), pos));
                        }
                        ensure!(
                            g2.most_recent_move().map(|m| mv_of(&m)) == Some(want_mv),
                            "accepted pair {}{} is not the most recent move of the history in {}",
                            sq_name(from),
                            sq_name(to),
                            pos.fen()
                        );
                    }
                }
            }
        }
    }

    // exact labels
    for m in &legal {
        let label = notation::san(pos, m, &legal);
        let mut g2 = Game::from_board(to_board(pos), 1);
        st.count("exact_labels", 1);
        match g2.apply_chess_move_from_raw_algebraic_notation(label.clone()) {
            Err(e) => {
                return Err(fail_pos(
                    format!("the standard label {:?} of the legal move {} was rejected: {:?}", label, mv_text(m), e),
                    pos,
                ))
            }
            Ok(em) => {
                let got = mv_of(&em);
                if got != *m {
                    return Err(fail_pos(format!("label {:?} played {} instead of {}", label, mv_text(&got), mv_text(m)), pos));
                }
                if let Err(e) = successor_matches(&g2, &pos.make(m), pos.side) {
                    return Err(fail_pos(format!("after accepted label {:?}: {}", label, e), pos));
                }
                ensure!(
                    g2.most_recent_move().map(|x| mv_of(&x)) == Some(*m),
                    "accepted label {:?} is not the most recent move of the history in {}",
                    label,
                    pos.fen()
                );
            }
        }
    }

    // near misses
    for text in near_misses(pos, &legal, prev) {
        let lenient = notation::lenient_matches(pos, &text, &legal);
        let exact: Vec<&Mv> = legal.iter().filter(|m| notation::san(pos, m, &legal) == text).collect();
        st.count("near_miss_strings", 1);
        if !exact.is_empty() {
            continue; // covered above
        }
        if lenient.is_empty() {
            let r = game.apply_chess_move_from_raw_algebraic_notation(text.clone());
            if let Ok(m) = &r {
                return Err(fail_pos(format!("string {:?} denotes no legal move but was accepted as {}", text, mv_text(&mv_of(m))), pos));
            }
            st.count("must_reject_strings", 1);
            snapshot_eq(&before, &snapshot(game.board()), &format!("rejected string {:?}", text), pos)?;
            ensure!(
                game.most_recent_move().map(|m| mv_of(&m)) == recent_before,
                "rejected string {:?} changed the move history in {}",
                text,
                pos.fen()
            );
        } else {
            let mut g2 = Game::from_board(to_board(pos), 1);
            let b2 = snapshot(g2.board());
            match g2.apply_chess_move_from_raw_algebraic_notation(text.clone()) {
                Ok(m) => {
                    let got = mv_of(&m);
                    if !lenient.contains(&got) {
                        return Err(fail_pos(format!("string {:?} was accepted but played {}, which it does not denote", text, mv_text(&got)), pos));
                    }
                }
                Err(_) => {
                    snapshot_eq(&b2, &snapshot(g2.board()), &format!("rejected string {:?}", text), pos)?;
                }
            }
        }
    }
    Ok(())
}

impl Prop for C14Typed {
    type Case = TypedCase;
    fn name(&self) -> &'static str {
        "C14/typed"
    }
    fn strategy(&self, _tier: Tier) -> BoxedStrategy<TypedCase> {
        (
            prop_oneof![
                3 => gen::seed_fen(),
                2 => gen::promo_theme().prop_map(|r| gen::build(&r).fen()),
                2 => gen::ambiguity_theme().prop_map(|r| gen::build(&r).fen()),
                1 => gen::castle_theme().prop_map(|r| gen::build(&r).fen()),
                1 => gen::ep_theme().prop_map(|r| gen::build(&r).fen()),
                2 => gen::pre_terminal(),
                1 => gen::smother_theme(),
            ],
            // mostly at or near the constructed position, sometimes deep into a game
            prop_oneof![
                3 => prop::collection::vec(any::<u16>(), 0..3),
                2 => prop::collection::vec(any::<u16>(), 0..40),
            ],
        )
            .prop_map(|(fen, sels)| TypedCase {
                walk: gen::Walk { fen, sels },
            })
            .boxed()
    }
    fn cases(&self, tier: Tier) -> u32 {
        tier.pick(96, 2_400)
    }
    fn max_shrink_iters(&self) -> u32 {
        200
    }
    fn test(&self, c: &TypedCase, st: &mut Stats) -> TestResult {
        // the game is driven through the Game API up to the sampled position
        let (ps, ms) = gen::realize_walk(&c.walk);
        let mut game = Game::from_board(to_board(&ps[0]), 1);
        for (i, m) in ms.iter().enumerate() {
            let r = game.apply_chess_move_by_from_to_coordinates(bb(m.from), bb(m.to));
            let played = match r {
                Ok(em) => mv_of(&em),
                Err(e) => return Err(fail_pos(format!("legal move {} rejected by the game: {:?}", mv_text(m), e), &ps[i])),
            };
            game.board_mut().toggle_turn();
            if played != *m {
                // an under-promotion was requested: the pair plays the queen; stop the walk here
                let pos = ps[i].make(&played);
                return c14_position(&pos, Some(&ps[i]), st);
            }
        }
        let got = from_board(game.board());
        let last = ps.last().unwrap();
        if got.sq != last.sq || got.rights != last.rights || got.ep != last.ep || got.side != last.side {
            return Err(fail_pos("game driven by coordinate pairs diverged from the reference".to_string(), last));
        }
        let prev = if ps.len() >= 2 { Some(&ps[ps.len() - 2]) } else { None };
        // what is accepted must not depend on the clocks: one sampled position in six is also
        // examined with the half-move clock at 99 (supplied board)
        if !last.legal_moves().is_empty() {
            let mut late = last.clone();
            late.half = 99;
            let mut scratch = Stats::default();
            // all labels for one position in six, the check / mate labels for every position
            let all = last.fingerprint() % 6 == 0;
            if c14_labels_only(&late, &mut scratch, !all)? > 0 {
                st.label(if all { "clock-99-all-labels" } else { "clock-99-check-and-mate-labels" });
            }
        }
        c14_position(last, prev, st)
    }
}

// ---- command line

const GLYPHS: [(char, (P, Side)); 12] = [
    ('♗', (P::Bishop, Side::Black)),
    ('♝', (P::Bishop, Side::White)),
    ('♔', (P::King, Side::Black)),
    ('♚', (P::King, Side::White)),
    ('♘', (P::Knight, Side::Black)),
    ('♞', (P::Knight, Side::White)),
    ('♙', (P::Pawn, Side::Black)),
    ('♟', (P::Pawn, Side::White)),
    ('♕', (P::Queen, Side::Black)),
    ('♛', (P::Queen, Side::White)),
    ('♖', (P::Rook, Side::Black)),
    ('♜', (P::Rook, Side::White)),
];

struct Pvp {
    child: std::process::Child,
    stdin: std::process::ChildStdin,
    rx: std::sync::mpsc::Receiver<String>,
}

impl Pvp {
    fn spawn() -> Pvp {
        use std::io::BufRead;
        let bin = "/verif/target/debug/chess";
        if !std::path::Path::new(bin).exists() {
            eprintln!("INCONCLUSIVE: {} not built", bin);
            std::process::exit(2);
        }
        let mut child = std::process::Command::new(bin)
            .arg("pvp")
            .stdin(std::process::Stdio::piped())
            .stdout(std::process::Stdio::piped())
            .stderr(std::process::Stdio::null())
            .spawn()
            .unwrap_or_else(|e| {
                eprintln!("INCONCLUSIVE: cannot spawn {}: {}", bin, e);
                std::process::exit(2)
            });
        let stdin = child.stdin.take().unwrap();
        let stdout = child.stdout.take().unwrap();
        let (tx, rx) = std::sync::mpsc::channel();
        std::thread::spawn(move || {
            let r = std::io::BufReader::new(stdout);
            for line in r.lines() {
                match line {
                    Ok(l) => {
                        if tx.send(l).is_err() {
                            break;
                        }
                    }
                    Err(_) => break,
                }
            }
        });
        Pvp { child, stdin, rx }
    }

    /// Read up to and including the next "turn:" block. Returns (lines before it, side, placement),
    /// or the lines seen if the program ended.
    fn read_block(&mut self) -> Result<(Vec<String>, Side, [Option<(P, Side)>; 64]), Vec<String>> {
        let mut pre = Vec::new();
        loop {
            let line = match self.rx.recv_timeout(std::time::Duration::from_secs(60)) {
                Ok(l) => l,
                Err(_) => return Err(pre),
            };
            if let Some(t) = line.strip_prefix("turn: ") {
                let side = match t.trim() {
                    "white" => Side::White,
                    "black" => Side::Black,
                    _ => {
                        eprintln!("INCONCLUSIVE: cannot parse {:?}", line);
                        std::process::exit(2);
                    }
                };
                let mut sq = [None; 64];
                for r in (0..8).rev() {
                    let row = match self.rx.recv_timeout(std::time::Duration::from_secs(60)) {
                        Ok(l) => l,
                        Err(_) => {
                            eprintln!("INCONCLUSIVE: board diagram truncated");
                            std::process::exit(2);
                        }
                    };
                    let chars: Vec<char> = row.chars().collect();
                    if chars.len() != 8 {
                        eprintln!("INCONCLUSIVE: cannot parse board row {:?}", row);
                        std::process::exit(2);
                    }
                    for (f, ch) in chars.iter().enumerate() {
                        if *ch == '.' {
                            continue;
                        }
                        match GLYPHS.iter().find(|g| g.0 == *ch) {
                            Some(g) => sq[r * 8 + f] = Some(g.1),
                            None => {
                                eprintln!("INCONCLUSIVE: unknown board glyph {:?}", ch);
                                std::process::exit(2);
                            }
                        }
                    }
                }
                return Ok((pre, side, sq));
            }
            pre.push(line);
        }
    }

    fn send(&mut self, text: &str) {
        use std::io::Write;
        let _ = writeln!(self.stdin, "{}", text);
        let _ = self.stdin.flush();
    }
}

impl Drop for Pvp {
    fn drop(&mut self) {
        let _ = self.child.kill();
        let _ = self.child.wait();
    }
}

/// Scripted openings (from the initial position) that reach castling with check / mate and
/// other special moves; found by reference-engine search (see tools in DESIGN.md).
pub fn scripted_games() -> Vec<Vec<String>> {
    let text = std::fs::read_to_string("/verif/corpus/pvp_games.txt").unwrap_or_default();
    let games: Vec<Vec<String>> = text
        .lines()
        .filter(|l| !l.trim().is_empty() && !l.starts_with('#'))
        .map(|l| l.split_whitespace().map(|s| s.to_string()).collect())
        .collect();
    // the corpus itself is validated by the reference rules: a broken corpus is inconclusive
    for g in &games {
        let mut pos = Pos::start();
        for t in g {
            match pos.legal_moves().into_iter().find(|m| notation::uci(m) == *t) {
                Some(m) => pos = pos.make(&m),
                None => {
                    eprintln!("INCONCLUSIVE: corpus/pvp_games.txt: {} is not legal in {} (game {:?})", t, pos.fen(), g.join(" "));
                    std::process::exit(2);
                }
            }
        }
    }
    games
}

#[derive(Clone, Debug, Serialize, Deserialize)]
pub struct CliCase {
    /// coordinate text of the moves (from the initial position)
    pub moves: Vec<String>,
    /// typed as label (true) or coordinate pair (false), cyclic
    pub as_label: Vec<bool>,
    /// insert a must-reject line before move i (cyclic)
    pub junk: Vec<bool>,
}

fn cli_game(c: &CliCase, st: &mut Stats) -> TestResult {
    let mut pos = Pos::start();
    let mut pvp = Pvp::spawn();
    let check_block = |pvp: &mut Pvp, pos: &Pos, what: &str| -> Result<Vec<String>, Failure> {
        match pvp.read_block() {
            Ok((pre, side, sq)) => {
                if side != pos.side || sq != pos.sq {
                    let mut shown = Pos::empty();
                    shown.sq = sq;
                    shown.side = side;
                    return Err(fail_pos(
                        format!("{}: the program shows {} to move {:?} but the position is {}", what, shown.fen(), side, pos.fen()),
                        pos,
                    ));
                }
                Ok(pre)
            }
            Err(pre) => {
                if pos.legal_moves().is_empty() || pre.iter().any(|l| l.contains("checkmate") || l.contains("stalemate") || l.contains("draw")) {
                    Ok(pre)
                } else {
                    Err(fail_pos(format!("{}: the program stopped answering; last output {:?}", what, pre), pos))
                }
            }
        }
    };
    check_block(&mut pvp, &pos, "at start")?;
    for (i, mtext) in c.moves.iter().enumerate() {
        let legal = pos.legal_moves();
        let m = match legal.iter().find(|m| notation::uci(m) == *mtext) {
            Some(m) => *m,
            None => break,
        };
        if !c.junk.is_empty() && c.junk[i % c.junk.len()] {
            // a line that must be rejected: position unchanged
            let junk = match i % 4 {
                0 => "e2e5".to_string(),
                1 => "Qh9".to_string(),
                2 => format!("{}{}", sq_name(m.to), sq_name(m.from)),
                _ => "hello".to_string(),
            };
            let denotes = legal.iter().any(|x| format!("{}{}", sq_name(x.from), sq_name(x.to)) == junk);
            if !denotes {
                pvp.send(&junk);
                st.count("cli_reject_lines", 1);
                check_block(&mut pvp, &pos, &format!("after the invalid line {:?}", junk))?;
            }
        }
        let as_label = !c.as_label.is_empty() && c.as_label[i % c.as_label.len()];
        // a coordinate pair cannot express an under-promotion
        let typed = if as_label || (m.kind == Kind::Promo && m.promo != Some(P::Queen)) {
            notation::san(&pos, &m, &legal)
        } else {
            format!("{}{}", sq_name(m.from), sq_name(m.to))
        };
        if typed.starts_with("O-O") && typed.len() > 3 && !typed.ends_with('O') {
            st.label("cli-castle-with-suffix");
        }
        if m.kind != Kind::Std {
            st.label("cli-special-move");
        }
        pvp.send(&typed);
        st.count("cli_moves", 1);
        pos = pos.make(&m);
        check_block(&mut pvp, &pos, &format!("after typing {:?} (move {} of the game)", typed, i + 1))?;
        if pos.legal_moves().is_empty() || pos.half >= 100 {
            break;
        }
    }
    st.nontrivial(fp_of(c), || json!({"moves": c.moves.join(" ")}));
    Ok(())
}

pub struct C14Cli;

impl Prop for C14Cli {
    type Case = CliCase;
    fn name(&self) -> &'static str {
        "C14/cli"
    }
    fn shards(&self) -> usize {
        8
    }
    fn strategy(&self, _tier: Tier) -> BoxedStrategy<CliCase> {
        let scripted = scripted_games();
        let n = scripted.len().max(1);
        let scripted2 = scripted.clone();
        let from_script = (0..n, prop::collection::vec(any::<u16>(), 0..12)).prop_map(move |(i, tail)| {
            let mut moves: Vec<String> = scripted2.get(i).cloned().unwrap_or_default();
            // continue with a generated tail
            let mut pos = Pos::start();
            for t in &moves {
                match pos.legal_moves().into_iter().find(|m| notation::uci(m) == *t) {
                    Some(m) => pos = pos.make(&m),
                    None => break,
                }
            }
            for s in tail {
                let legal = pos.legal_moves();
                if legal.is_empty() {
                    break;
                }
                let m = gen::select(&legal, s);
                moves.push(notation::uci(&m));
                pos = pos.make(&m);
            }
            moves
        });
        let random_game = prop::collection::vec(any::<u16>(), 1..60).prop_map(|sels| {
            let w = gen::Walk {
                fen: STANDARD[0].1.to_string(),
                sels,
            };
            gen::realize_walk(&w).1.iter().map(notation::uci).collect::<Vec<_>>()
        });
        (
            prop_oneof![3 => from_script, 2 => random_game],
            prop::collection::vec(any::<bool>(), 1..8),
            prop::collection::vec(prop::bool::weighted(0.25), 1..8),
        )
            .prop_map(|(moves, as_label, junk)| CliCase { moves, as_label, junk })
            .boxed()
    }
    fn cases(&self, tier: Tier) -> u32 {
        tier.pick(16, 160)
    }
    fn test(&self, c: &CliCase, st: &mut Stats) -> TestResult {
        cli_game(c, st)
    }
}

/// Every scripted game typed entirely by label (deterministic part of the CLI tier).
fn run_cli_scripted(_env: &Env, agg: &mut Stats) -> Option<Violation> {
    let games = scripted_games();
    let results: Vec<(Stats, Option<(CliCase, Failure)>)> = games
        .par_iter()
        .map(|g| {
            let mut st = Stats::default();
            let c = CliCase {
                moves: g.clone(),
                as_label: vec![true],
                junk: vec![false],
            };
            st.eval();
            let r = match no_panic(|| cli_game(&c, &mut st)) {
                Ok(r) => r,
                Err(m) => Err(Failure::new(format!("panic: {}", m))),
            };
            (st, r.err().map(|f| (c, f)))
        })
        .collect();
    let mut v = None;
    for (st, f) in results {
        agg.merge(st);
        if v.is_none() {
            if let Some((c, f)) = f {
                v = Some(violation("C14/cli", serde_json::to_value(&c).unwrap(), f));
            }
        }
    }
    v
}

/// Many positions, few strings each: every label that carries a check / mate suffix or names a
/// special move (castling, en passant, promotion) must be accepted and play exactly its move.
pub struct C14Labels;
impl Prop for C14Labels {
    type Case = String;
    fn name(&self) -> &'static str {
        "C14/suffixed-and-special-labels"
    }
    fn max_shrink_iters(&self) -> u32 {
        300
    }
    fn strategy(&self, _tier: Tier) -> BoxedStrategy<String> {
        super::pos::notation_position()
    }
    fn cases(&self, tier: Tier) -> u32 {
        tier.pick(2_400, 60_000)
    }
    fn test(&self, fen: &String, st: &mut Stats) -> TestResult {
        let pos = Pos::from_fen(fen).map_err(Failure::new)?;
        let n = c14_labels_only(&pos, st, true)?;
        if n > 0 {
            st.nontrivial(pos.fingerprint(), || json!({"fen": pos.fen(), "labels_typed": n}));
        }
        Ok(())
    }
}

/// One Game object lives through a whole session (as in the play loops): labels are listed at
/// every turn and the moves are typed alternately as labels and coordinate pairs; shuffling
/// policies make placements recur with either side to move.
pub struct Session {
    pub name: &'static str,
    /// C13: only the listings are judged; moves are made by coordinate pairs
    pub listings_only: bool,
}
impl Prop for Session {
    type Case = RepCase;
    fn name(&self) -> &'static str {
        self.name
    }
    fn max_shrink_iters(&self) -> u32 {
        300
    }
    fn strategy(&self, _tier: Tier) -> BoxedStrategy<RepCase> {
        (rep_seed(), rep_ops(50)).prop_map(|(fen, ops)| RepCase { fen, ops }).boxed()
    }
    fn cases(&self, tier: Tier) -> u32 {
        tier.pick(1_600, 40_000)
    }
    fn test(&self, c: &RepCase, st: &mut Stats) -> TestResult {
        let mut cur = Pos::from_fen(&c.fen).map_err(Failure::new)?;
        cur.half = 0;
        let mut game = Game::from_board(to_board(&cur), 1);
        let mut history: Vec<Mv> = Vec::new();
        let mut placements: BTreeMap<Vec<Option<(P, Side)>>, BTreeSet<Side>> = BTreeMap::new();
        let mut lookalike = false;
        let mut counts: BTreeMap<Key, u32> = BTreeMap::new();
        counts.insert(key_literal(&cur), 1);
        for (i, op) in c.ops.iter().enumerate() {
            let legal = cur.legal_moves();
            if legal.is_empty() {
                break;
            }
            let sides = placements.entry(cur.sq.to_vec()).or_default();
            if sides.contains(&cur.side.other()) {
                lookalike = true;
            }
            sides.insert(cur.side);
            // sometimes the engine is asked for its move first (book, then search): what it
            // caches must not change the listing
            if i % 5 == 2 && legal.len() <= 14 {
                let _ = game.select_waterfall_book_then_alpha_beta_best_move();
                st.count("engine_asked_before_listing", 1);
            }
            // the listing the loops print every turn
            let listed = game.enumerated_candidate_moves();
            let got: Vec<(Mv, String)> = listed.iter().map(|(m, s)| (mv_of(m), s.clone())).collect();
            let mut scratch = Stats::default();
            super::pos::check_labels(&cur, &got, &mut scratch, &format!("Game::enumerated_candidate_moves at move {} of a session", i + 1))?;
            let own_last = if history.len() >= 2 { Some(&history[history.len() - 2]) } else { None };
            let m = match choose_rep(&cur, &legal, op, own_last) {
                Some(m) => m,
                None => continue,
            };
            // a label of the other side's move must be rejected without effect
            if i % 3 == 0 && !self.listings_only {
                let mut other = cur.clone();
                other.side = cur.side.other();
                other.ep = None;
                if other.consistent().is_ok() {
                    let ol = other.legal_moves();
                    if let Some(om) = ol.first() {
                        let text = notation::san(&other, om, &ol);
                        if notation::lenient_matches(&cur, &text, &legal).is_empty() {
                            let before = snapshot(game.board());
                            let r = game.apply_chess_move_from_raw_algebraic_notation(text.clone());
                            if let Ok(pm) = &r {
                                return Err(fail_pos(
                                    format!("move {} of a session: {:?} is a label of the OTHER side only, but it was accepted and played {}", i + 1, text, mv_text(&mv_of(pm))),
                                    &cur,
                                ));
                            }
                            snapshot_eq(&before, &snapshot(game.board()), &format!("rejected string {:?}", text), &cur)?;
                            st.count("session_must_reject", 1);
                        }
                    }
                }
            }
            let typed_label = !self.listings_only && (i % 2 == 0 || (m.kind == Kind::Promo && m.promo != Some(P::Queen)));
            let played = if typed_label {
                let label = notation::san(&cur, &m, &legal);
                match game.apply_chess_move_from_raw_algebraic_notation(label.clone()) {
                    Ok(pm) => mv_of(&pm),
                    Err(e) => {
                        return Err(fail_pos(
                            format!("move {} of a session: the standard label {:?} of {} was rejected: {:?}", i + 1, label, mv_text(&m), e),
                            &cur,
                        ))
                    }
                }
            } else {
                match game.apply_chess_move_by_from_to_coordinates(bb(m.from), bb(m.to)) {
                    Ok(pm) => mv_of(&pm),
                    Err(e) => {
                        return Err(fail_pos(
                            format!("move {} of a session: the pair {}{} of the legal move {} was rejected: {:?}", i + 1, sq_name(m.from), sq_name(m.to), mv_text(&m), e),
                            &cur,
                        ))
                    }
                }
            };
            let want = if !typed_label && m.kind == Kind::Promo {
                Mv { promo: Some(P::Queen), ..m }
            } else {
                m
            };
            if played != want {
                return Err(fail_pos(
                    format!("move {} of a session: typed {} but the game played {}", i + 1, mv_text(&want), mv_text(&played)),
                    &cur,
                ));
            }
            let next = cur.make(&want);
            if let Err(e) = successor_matches(&game, &next, cur.side) {
                return Err(fail_pos(format!("move {} of a session, after {}: {}", i + 1, mv_text(&want), e), &cur));
            }
            game.board_mut().toggle_turn();
            cur = next;
            history.push(want);
            st.count("session_moves", 1);
            let n = counts.entry(key_literal(&cur)).or_insert(0);
            *n += 1;
            if *n >= 3 || cur.half >= 100 {
                break;
            }
        }
        if lookalike {
            st.label("same-placement-other-side-to-move");
            st.nontrivial(fp_of(c), || json!({"seed": c.fen, "moves": history.iter().map(notation::uci).collect::<Vec<_>>().join(" ")}));
        }
        Ok(())
    }
}

pub fn c14_checks() -> Vec<Box<dyn DynCheck>> {
    vec![
        Box::new(C14Typed),
        Box::new(C14Labels),
        Box::new(Session {
            name: "C14/session",
            listings_only: false,
        }),
        Box::new(FnCheck {
            name: "C14/cli-scripted",
            run: run_cli_scripted,
            replay: |_| Err("replay as C14/cli".into()),
        }),
        Box::new(C14Cli),
    ]
}

// ------------------------------------------------------------------------------ C15

pub const C15_RULE: &str = "(a) the WHOLE compiled opening-book trie is walked depth-first through Book::default().get_next_moves(prefix): the prefix must replay legally from the standard starting position on the reference rules and every child (from, to) must be the from/to of a reference-legal move there; (b) at every trie node a Game::new(1) is advanced by the prefix through the Game API and select_waterfall_book_then_alpha_beta_best_move is called k times (the engine's own thread_rng picks among children): Ok(move) in the reference legal set, snapshot unchanged; (c) off-book histories: follow a book line for j plies, then deviate with generated legal moves, asking for the engine's move at every step; (d) supplied positions: Game::from_board(set-up from the themes) - histories that are empty or match book moves by squares only - must yield Ok(legal move) whenever a legal move exists; (e) deep blocked: kings and blocked pawn pairs (only kings can move) searched at growing depths (8..22, bounded by node counts); (f) the built `chess play` binary is driven over stdin: after every typed move the diagram printed before the next prompt must be the reference successor of one of the engine's legal moves. Non-trivial = trie node with >= 1 continuation, off-book deviation, or supplied position in which a root book move is not legal; distinct = hash of the prefix / case.";

fn book_children(book: &Book, prefix: &[Mv]) -> Vec<(u8, u8)> {
    let line: Vec<BookMove> = prefix.iter().map(|m| BookMove::new(bb(m.from), bb(m.to))).collect();
    let mut v: Vec<(u8, u8)> = book
        .get_next_moves(line)
        .iter()
        .map(|(bm, _)| (sq_of_bb(bm.from_square()), sq_of_bb(bm.to_square())))
        .collect();
    v.sort();
    v
}

fn ask_engine(game: &mut Game, pos: &Pos, what: &str) -> TestResult {
    let legal = pos.legal_moves();
    if legal.is_empty() {
        return Ok(());
    }
    let before = snapshot(game.board());
    let r = match no_panic(|| game.select_waterfall_book_then_alpha_beta_best_move()) {
        Ok(r) => r,
        Err(m) => return Err(fail_pos(format!("{}: asking the engine for its move panicked: {}", what, m), pos)),
    };
    let after = snapshot(game.board());
    if let Some(d) = snapshot_diff(&before, &after) {
        return Err(fail_pos(format!("{}: asking for the engine's move changed the board: {}", what, d), pos));
    }
    match r {
        Ok(m) => {
            let got = mv_of(&m);
            if !legal.contains(&got) {
                return Err(fail_pos(format!("{}: the engine proposes {}, which is not legal", what, mv_text(&got)), pos));
            }
            Ok(())
        }
        Err(e) => Err(fail_pos(
            format!("{}: the engine answered {:?} although {} legal moves exist", what, e, legal.len()),
            pos,
        )),
    }
}

fn run_trie(env: &Env, agg: &mut Stats) -> Option<Violation> {
    let name = "C15/book-trie";
    let book = Book::default();
    let k = env.tier.pick(2, 6);
    // depth-first enumeration of all nodes
    let mut nodes: Vec<(Vec<Mv>, Pos)> = Vec::new();
    let mut stack: Vec<(Vec<Mv>, Pos)> = vec![(vec![], Pos::start())];
    while let Some((prefix, pos)) = stack.pop() {
        let children = book_children(&book, &prefix);
        agg.eval();
        let legal = pos.legal_moves();
        if !children.is_empty() {
            agg.nontrivial(fp_of(&prefix), || {
                json!({"prefix": prefix.iter().map(notation::uci).collect::<Vec<_>>().join(" "), "children": children.iter().map(|(f, t)| format!("{}{}", sq_name(*f), sq_name(*t))).collect::<Vec<_>>()})
            });
        }
        for (f, t) in &children {
            let m = legal.iter().find(|m| m.from == *f && m.to == *t && (m.promo.is_none() || m.promo == Some(P::Queen)));
            match m {
                None => {
                    let ptxt = prefix.iter().map(notation::uci).collect::<Vec<_>>().join(" ");
                    return Some(violation(
                        name,
                        json!({"prefix": ptxt, "move": format!("{}{}", sq_name(*f), sq_name(*t))}),
                        fail_pos(
                            format!("book move {}{} after [{}] is not legal", sq_name(*f), sq_name(*t), ptxt),
                            &pos,
                        ),
                    ));
                }
                Some(m) => {
                    let mut p2 = prefix.clone();
                    p2.push(*m);
                    stack.push((p2, pos.make(m)));
                }
            }
        }
        nodes.push((prefix, pos));
    }
    agg.count("trie_nodes", nodes.len() as u64);
    agg.exhaustive = Some("every node of the compiled opening-book trie".into());
    // engine's answer at every node
    let results: Vec<(u64, Option<(Vec<Mv>, Failure)>)> = nodes
        .par_iter()
        .map(|(prefix, pos)| {
            let run = || -> TestResult {
                let mut game = Game::new(1);
                for m in prefix {
                    game.apply_chess_move_by_from_to_coordinates(bb(m.from), bb(m.to))
                        .map_err(|e| fail_pos(format!("book prefix move {} rejected by the game: {:?}", mv_text(m), e), pos))?;
                    game.board_mut().toggle_turn();
                }
                for _ in 0..k {
                    ask_engine(&mut game, pos, "at a book node")?;
                }
                Ok(())
            };
            let r = match no_panic(run) {
                Ok(r) => r,
                Err(m) => Err(Failure::new(format!("panic: {}", m))),
            };
            (k as u64, r.err().map(|f| (prefix.clone(), f)))
        })
        .collect();
    for (n, f) in results {
        agg.count("engine_calls_at_book_nodes", n);
        agg.evaluations += n;
        if let Some((prefix, f)) = f {
            return Some(violation(name, json!({"prefix": prefix.iter().map(notation::uci).collect::<Vec<_>>().join(" ")}), f));
        }
    }
    None
}

#[derive(Clone, Debug, Serialize, Deserialize)]
pub struct OffBookCase {
    /// selectors: first `follow` plies choose among book children, the rest among legal moves
    pub follow: u8,
    pub sels: Vec<u16>,
}

pub struct C15OffBook;
impl Prop for C15OffBook {
    type Case = OffBookCase;
    fn name(&self) -> &'static str {
        "C15/off-book"
    }
    fn strategy(&self, _tier: Tier) -> BoxedStrategy<OffBookCase> {
        (0u8..8, prop::collection::vec(any::<u16>(), 1..14))
            .prop_map(|(follow, sels)| OffBookCase { follow, sels })
            .boxed()
    }
    fn cases(&self, tier: Tier) -> u32 {
        tier.pick(160, 4_000)
    }
    fn test(&self, c: &OffBookCase, st: &mut Stats) -> TestResult {
        let book = Book::default();
        let mut game = Game::new(1);
        let mut pos = Pos::start();
        let mut prefix: Vec<Mv> = Vec::new();
        let mut left_book = false;
        for (i, s) in c.sels.iter().enumerate() {
            let legal = pos.legal_moves();
            if legal.is_empty() {
                break;
            }
            let children = book_children(&book, &prefix);
            let m = if (i as u8) < c.follow && !children.is_empty() && !left_book {
                let (f, t) = gen::select(&children, *s);
                match legal.iter().find(|m| m.from == f && m.to == t) {
                    Some(m) => *m,
                    None => return Ok(()), // illegal book move: reported by the trie walk
                }
            } else {
                let m = gen::select(&legal, *s);
                if !children.contains(&(m.from, m.to)) {
                    left_book = true;
                }
                m
            };
            let played = game
                .apply_chess_move_by_from_to_coordinates(bb(m.from), bb(m.to))
                .map_err(|e| fail_pos(format!("legal move {} rejected by the game: {:?}", mv_text(&m), e), &pos))?;
            game.board_mut().toggle_turn();
            let played = mv_of(&played);
            pos = pos.make(&played);
            prefix.push(played);
            st.count("engine_calls", 1);
            ask_engine(&mut game, &pos, if left_book { "after leaving the book" } else { "inside the book" })?;
        }
        if left_book {
            st.label("left-book");
            st.nontrivial(fp_of(c), || json!({"moves": prefix.iter().map(notation::uci).collect::<Vec<_>>().join(" ")}));
        }
        Ok(())
    }
}

#[derive(Clone, Debug, Serialize, Deserialize)]
pub struct SuppliedCase {
    pub fen: String,
    pub sels: Vec<u16>,
    /// half-move clock of the supplied position (draw-by-clock states still have legal moves)
    #[serde(default)]
    pub half: u8,
    /// shuffle pieces out and back through the Game API first so the position has occurred three times
    #[serde(default)]
    pub shuffle: bool,
}

pub struct C15Supplied;
impl Prop for C15Supplied {
    type Case = SuppliedCase;
    fn name(&self) -> &'static str {
        "C15/supplied-positions"
    }
    fn strategy(&self, _tier: Tier) -> BoxedStrategy<SuppliedCase> {
        (
            prop_oneof![
                3 => gen::placement(20).prop_map(|r| gen::build(&r).fen()),
                4 => gen::castle_theme().prop_map(|r| gen::build(&r).fen()),
                3 => gen::tactical_crowd(),
                2 => gen::cage_theme().prop_map(|r| gen::build(&r).fen()),
                2 => gen::endgame(4).prop_map(|r| gen::build(&r).fen()),
                1 => gen::promo_theme().prop_map(|r| gen::build(&r).fen()),
                // positions close to the initial one: book moves match by squares
                3 => prop::collection::vec(any::<u16>(), 0..6).prop_map(|sels| {
                    let mut p = gen::walk_end(&gen::Walk { fen: STANDARD[0].1.to_string(), sels });
                    p.half = 0;
                    p.fen()
                }),
            ],
            prop::collection::vec(any::<u16>(), 0..4),
            prop_oneof![5 => Just(0u8), 1 => 96u8..104, 1 => 100u8..=149],
            prop::bool::weighted(0.2),
        )
            .prop_map(|(fen, sels, half, shuffle)| SuppliedCase { fen, sels, half, shuffle })
            .boxed()
    }
    fn cases(&self, tier: Tier) -> u32 {
        tier.pick(480, 12_000)
    }
    fn test(&self, c: &SuppliedCase, st: &mut Stats) -> TestResult {
        let mut shuffle_moves: Vec<Mv> = Vec::new();
        let mut pos = Pos::from_fen(&c.fen).map_err(Failure::new)?;
        pos.half = c.half as u32;
        let mut game = Game::from_board(to_board(&pos), 1);
        let book = Book::default();
        let root_children = book_children(&book, &[]);
        if c.half >= 100 {
            st.label("clock>=100-with-moves");
        }
        if c.shuffle {
            // out and back twice: the starting position occurs for the third time
            let mut ok = true;
            for _round in 0..2 {
                for step in 0..4 {
                    let legal = pos.legal_moves();
                    let quiet = |m: &&Mv| m.cap.is_none() && m.kind == Kind::Std && pos.sq[m.from as usize].map(|x| x.0) != Some(P::Pawn) && pos.sq[m.from as usize].map(|x| x.0) != Some(P::King) && pos.sq[m.from as usize].map(|x| x.0) != Some(P::Rook);
                    let m = if step < 2 {
                        legal.iter().find(quiet).cloned()
                    } else {
                        None
                    };
                    let m = match (step, m) {
                        (0, Some(m)) | (1, Some(m)) => {
                            shuffle_moves.push(m);
                            m
                        }
                        (2, _) | (3, _) => {
                            let back = shuffle_moves[step - 2];
                            match legal.iter().find(|x| x.from == back.to && x.to == back.from && x.cap.is_none()) {
                                Some(x) => *x,
                                None => {
                                    ok = false;
                                    break;
                                }
                            }
                        }
                        _ => {
                            ok = false;
                            break;
                        }
                    };
                    if game.apply_chess_move_by_from_to_coordinates(bb(m.from), bb(m.to)).is_err() {
                        ok = false;
                        break;
                    }
                    game.board_mut().toggle_turn();
                    pos = pos.make(&m);
                }
                shuffle_moves.clear();
                if !ok {
                    break;
                }
            }
            if ok {
                st.label("third-occurrence-with-moves");
            }
        }
        let legal = pos.legal_moves();
        let some_book_move_illegal = root_children.iter().any(|(f, t)| !legal.iter().any(|m| m.from == *f && m.to == *t));
        if some_book_move_illegal {
            st.label("root-book-move-not-legal-here");
            st.nontrivial(pos.fingerprint(), || json!({"fen": pos.fen()}));
        }
        // several calls: the book choice is the engine's own randomness
        for _ in 0..3 {
            st.count("engine_calls", 1);
            ask_engine(&mut game, &pos, "on a supplied position")?;
        }
        // the same Game asked about the same placement with the other side to move
        // (a position supplied through board_mut().set_turn)
        if !c.shuffle && c.sels.len() % 2 == 1 {
            let mut flipped = pos.clone();
            flipped.side = pos.side.other();
            if flipped.consistent().is_ok() && pos.ep.is_none() {
                game.board_mut().set_turn(to_color(flipped.side));
                st.label("same-game-other-side-to-move");
                st.count("engine_calls", 1);
                ask_engine(&mut game, &flipped, "on the same supplied placement with the other side to move")?;
                game.board_mut().set_turn(to_color(pos.side));
            }
        }
        for s in &c.sels {
            let legal = pos.legal_moves();
            if legal.is_empty() {
                break;
            }
            let m = gen::select(&legal, *s);
            let played = game
                .apply_chess_move_by_from_to_coordinates(bb(m.from), bb(m.to))
                .map_err(|e| fail_pos(format!("legal move {} rejected by the game: {:?}", mv_text(&m), e), &pos))?;
            game.board_mut().toggle_turn();
            pos = pos.make(&mv_of(&played));
            st.count("engine_calls", 1);
            ask_engine(&mut game, &pos, "on a game from a supplied position")?;
        }
        Ok(())
    }
}

// ---- `chess play` over stdin: the human types coordinate pairs, the engine answers

fn strip_ansi(line: &str) -> String {
    let mut out = String::new();
    let mut chars = line.chars().peekable();
    while let Some(c) = chars.next() {
        if c == '\u{1b}' {
            if chars.peek() == Some(&'[') {
                chars.next();
                while let Some(&d) = chars.peek() {
                    chars.next();
                    if d.is_ascii_alphabetic() {
                        break;
                    }
                }
            }
        } else {
            out.push(c);
        }
    }
    out
}

struct PlayCli {
    child: std::process::Child,
    stdin: std::process::ChildStdin,
    rx: std::sync::mpsc::Receiver<String>,
}

enum PlayEvent {
    /// the prompt appeared; the last complete diagram printed before it
    Prompt(Option<[Option<(P, Side)>; 64]>, Vec<String>),
    /// the program announced the end of the game or closed its output
    Ended(Option<[Option<(P, Side)>; 64]>, Vec<String>),
}

impl PlayCli {
    fn spawn(depth: u8, white: bool) -> PlayCli {
        use std::io::BufRead;
        let bin = "/verif/target/debug/chess";
        if !std::path::Path::new(bin).exists() {
            eprintln!("INCONCLUSIVE: {} not built", bin);
            std::process::exit(2);
        }
        let mut child = std::process::Command::new(bin)
            .args(["play", "--depth", &depth.to_string(), "--color", if white { "white" } else { "black" }])
            .stdin(std::process::Stdio::piped())
            .stdout(std::process::Stdio::piped())
            .stderr(std::process::Stdio::null())
            .spawn()
            .unwrap_or_else(|e| {
                eprintln!("INCONCLUSIVE: cannot spawn {}: {}", bin, e);
                std::process::exit(2)
            });
        let stdin = child.stdin.take().unwrap();
        let stdout = child.stdout.take().unwrap();
        let (tx, rx) = std::sync::mpsc::channel();
        std::thread::spawn(move || {
            let r = std::io::BufReader::new(stdout);
            for line in r.lines() {
                match line {
                    Ok(l) => {
                        if tx.send(l).is_err() {
                            break;
                        }
                    }
                    Err(_) => break,
                }
            }
        });
        PlayCli { child, stdin, rx }
    }

    fn send(&mut self, text: &str) {
        use std::io::Write;
        let _ = writeln!(self.stdin, "{}", text);
        let _ = self.stdin.flush();
    }

    fn next_event(&mut self) -> PlayEvent {
        let mut last: Option<[Option<(P, Side)>; 64]> = None;
        let mut cur: [Option<(P, Side)>; 64] = [None; 64];
        let mut rows_seen = 0;
        let mut log: Vec<String> = Vec::new();
        loop {
            let raw = match self.rx.recv_timeout(std::time::Duration::from_secs(180)) {
                Ok(l) => l,
                Err(std::sync::mpsc::RecvTimeoutError::Disconnected) => return PlayEvent::Ended(last, log),
                Err(_) => {
                    eprintln!("INCONCLUSIVE: `chess play` produced no output for 180 s; last lines: {:?}", log);
                    std::process::exit(2);
                }
            };
            let line = strip_ansi(&raw);
            if log.len() < 400 {
                log.push(line.clone());
            }
            let t = line.trim();
            if t.starts_with("Enter your move") {
                return PlayEvent::Prompt(last, log);
            }
            if t.contains("checkmate!") || t.contains("stalemate!") {
                return PlayEvent::Ended(last, log);
            }
            // only legal moves are typed, so an error line comes from the engine's own turn
            // (the loop would repeat it for ever)
            if t.starts_with("error:") {
                return PlayEvent::Ended(last, log);
            }
            // diagram rows: "8 │ ♖ │ ♘ │ ... │ 8"
            let cells: Vec<&str> = t.split('│').collect();
            if cells.len() == 10 {
                if let Ok(rank) = cells[0].trim().parse::<u8>() {
                    if (1..=8).contains(&rank) {
                        if rank == 8 {
                            cur = [None; 64];
                            rows_seen = 0;
                        }
                        for f in 0..8 {
                            let c = cells[1 + f].trim();
                            let ch = c.chars().next();
                            let sq = ((rank - 1) * 8 + f as u8) as usize;
                            cur[sq] = match ch {
                                None | Some('·') => None,
                                Some(g) => match GLYPHS.iter().find(|x| x.0 == g) {
                                    Some(x) => Some(x.1),
                                    None => {
                                        eprintln!("INCONCLUSIVE: unknown diagram glyph {:?}", g);
                                        std::process::exit(2);
                                    }
                                },
                            };
                        }
                        rows_seen += 1;
                        if rank == 1 && rows_seen == 8 {
                            last = Some(cur);
                        }
                    }
                }
            }
        }
    }
}

impl Drop for PlayCli {
    fn drop(&mut self) {
        let _ = self.child.kill();
        let _ = self.child.wait();
    }
}

#[derive(Clone, Debug, Serialize, Deserialize)]
pub struct PlayCase {
    pub white: bool,
    pub depth: u8,
    pub sels: Vec<u16>,
}

/// The human-v-computer loop of the command line: after every typed move the engine must answer
/// with a legal move (book first, search afterwards) - the diagram printed before the next prompt
/// must be the reference successor of one of the engine's legal moves.
pub struct C15CliPlay;
impl Prop for C15CliPlay {
    type Case = PlayCase;
    fn name(&self) -> &'static str {
        "C15/cli-play"
    }
    fn shards(&self) -> usize {
        4
    }
    fn max_shrink_iters(&self) -> u32 {
        12
    }
    fn strategy(&self, _tier: Tier) -> BoxedStrategy<PlayCase> {
        (any::<bool>(), 1u8..=2, prop::collection::vec(any::<u16>(), 2..7))
            .prop_map(|(white, depth, sels)| PlayCase { white, depth, sels })
            .boxed()
    }
    fn cases(&self, tier: Tier) -> u32 {
        tier.pick(6, 96)
    }
    fn test(&self, c: &PlayCase, st: &mut Stats) -> TestResult {
        let me = if c.white { Side::White } else { Side::Black };
        let mut cli = PlayCli::spawn(c.depth, c.white);
        let mut cur = Pos::start();
        let mut engine_moves: Vec<String> = Vec::new();
        let mut out_of_book = false;
        let book = Book::default();
        let mut history: Vec<Mv> = Vec::new();
        // returns Ok(true) to go on, Ok(false) when the game is over
        let mut absorb = |ev: PlayEvent, cur: &mut Pos, history: &mut Vec<Mv>, engine_moves: &mut Vec<String>, out_of_book: &mut bool| -> Result<bool, Failure> {
            let (shown, log, ended) = match ev {
                PlayEvent::Prompt(b, l) => (b, l, false),
                PlayEvent::Ended(b, l) => (b, l, true),
            };
            let tail: Vec<String> = log.iter().rev().take(6).rev().cloned().collect();
            if cur.side == me {
                // nothing for the engine to do: the diagram must show the current position
                if let Some(b) = shown {
                    if b != cur.sq {
                        return Err(fail_pos("the diagram printed by `chess play` is not the current position".to_string(), cur));
                    }
                }
                return Ok(!ended);
            }
            let legal = cur.legal_moves();
            if legal.is_empty() {
                return Ok(false);
            }
            let shown = match shown {
                Some(b) => b,
                None => return Err(fail_pos(format!("it is the engine's move but `chess play` printed no position; output ends {:?}", tail), cur)),
            };
            let m = legal.iter().find(|m| cur.make(m).sq == shown);
            match m {
                Some(m) => {
                    if book_children(&book, history).is_empty() {
                        *out_of_book = true;
                    }
                    engine_moves.push(notation::uci(m));
                    history.push(*m);
                    *cur = cur.make(m);
                    Ok(!ended && !cur.legal_moves().is_empty())
                }
                None => {
                    let mut p = Pos::empty();
                    p.sq = shown;
                    Err(fail_pos(
                        format!(
                            "with the engine to move ({} legal moves) `chess play` shows {} which is not the result of any legal move; output ends {:?}",
                            legal.len(),
                            p.fen().split(' ').next().unwrap_or(""),
                            tail
                        ),
                        cur,
                    ))
                }
            }
        };
        let mut ev = cli.next_event();
        if !c.white {
            // the program prints the initial diagram and a prompt before its loop starts, whoever
            // is to move: with the human playing Black the engine's first move follows
            if let PlayEvent::Prompt(Some(b), _) = &ev {
                if *b == cur.sq {
                    ev = cli.next_event();
                }
            }
        }
        if !absorb(ev, &mut cur, &mut history, &mut engine_moves, &mut out_of_book)? {
            return Ok(());
        }
        for sel in &c.sels {
            let legal: Vec<Mv> = cur.legal_moves().into_iter().filter(|m| m.promo.is_none() || m.promo == Some(P::Queen)).collect();
            if legal.is_empty() {
                break;
            }
            let m = gen::select(&legal, *sel);
            cli.send(&format!("{}{}", sq_name(m.from), sq_name(m.to)));
            cur = cur.make(&m);
            history.push(m);
            st.count("cli_play_moves", 1);
            let ev = cli.next_event();
            if !absorb(ev, &mut cur, &mut history, &mut engine_moves, &mut out_of_book)? {
                break;
            }
        }
        if out_of_book {
            st.label("cli-play-engine-out-of-book");
        }
        st.nontrivial(fp_of(c), || json!({"human": if c.white { "white" } else { "black" }, "depth": c.depth, "engine_moves": engine_moves.join(" ")}));
        Ok(())
    }
}

pub fn c15_checks() -> Vec<Box<dyn DynCheck>> {
    vec![
        Box::new(FnCheck {
            name: "C15/book-trie",
            run: run_trie,
            replay: |_| Err("deterministic enumeration: re-run the check".into()),
        }),
        Box::new(C15OffBook),
        Box::new(C15Supplied),
        Box::new(C15CliPlay),
    ]
}

// ------------------------------------------------------------------------------ C17

pub const C17_RULE: &str = "model-based histories on few-piece and opening positions with a shuffle-biased policy (lines of up to 90 plies, one case in thirteen a line of 100..150 plies followed by a partial or full unwinding and more shuffling; Reverse = play the mover's previous move backwards, so positions recur; Move/Quiet for triangulation; rook/king excursions that lose castling rights; double steps creating en-passant opportunities) and interleaved undos: every position is registered as it arises (turn flipped by the caller first, as the game loops do) and unregistered before its move is undone. Oracle: reference multiset keyed by (placement, side to move, castling rights, en-passant target): count_current_position() == occurrences after insertion, uncount_current_position() == occurrences after removal, max_seen_position_count() == last reported count. Where the literal en-passant-target reading and the FIDE reading (target only counts if a capture is possible) give different counts the step is not asserted (counted as ep-ambiguous). Game level: shuffle games through Game::from_board / apply_chess_move_by_from_to_coordinates / toggle_turn: check_game_over_for_current_turn() on non-terminal positions must be Draw iff the current position has now occurred three times (or the half-move clock reached 100). Mixed games from the standard start: engine moves (opening book first) and typed shuffling moves on one Game. Engine games: the engine plays both sides through make_waterfall_book_then_alpha_beta_move from tiny endgames (every move legal, successor exact, draw verdict iff third occurrence). Non-trivial = history has a true recurrence (count >= 2) and a look-alike (same placement with the other side to move or other rights/ep); distinct = hash of the op sequence.";

#[derive(Clone, Debug, Serialize, Deserialize, PartialEq)]
pub enum ROp {
    Move(u16),
    Quiet(u16),
    Reverse,
    Undo,
    Probe,
    /// continue on a clone of the board: a copy carries the whole registration history
    CloneBoard,
}

#[derive(Clone, Debug, Serialize, Deserialize)]
pub struct RepCase {
    pub fen: String,
    pub ops: Vec<ROp>,
}

type Key = (Vec<Option<(P, Side)>>, Side, u8, Option<u8>);

fn key_literal(p: &Pos) -> Key {
    (p.sq.to_vec(), p.side, p.rights, p.ep)
}
fn key_fide(p: &Pos) -> Key {
    let ep = if p.legal_moves().iter().any(|m| m.kind == Kind::Ep) { p.ep } else { None };
    (p.sq.to_vec(), p.side, p.rights, ep)
}

fn rep_seed() -> BoxedStrategy<String> {
    let zero = |mut p: Pos| {
        p.half = 0;
        p.fen()
    };
    prop_oneof![
        4 => gen::endgame(4).prop_map(move |r| zero(gen::build(&r))),
        2 => Just(STANDARD[0].1.to_string()),
        2 => Just("r3k2r/pppppppp/8/8/8/8/PPPPPPPP/R3K2R w KQkq - 0 1".to_string()),
        2 => gen::castle_theme().prop_map(move |r| zero(gen::build(&r))),
        1 => gen::pawn_placement().prop_map(move |r| zero(gen::build(&r))),
    ]
    .boxed()
}

fn rep_ops(max: usize) -> BoxedStrategy<Vec<ROp>> {
    prop::collection::vec(
        prop_oneof![
            3 => any::<u16>().prop_map(ROp::Move),
            6 => any::<u16>().prop_map(ROp::Quiet),
            8 => Just(ROp::Reverse),
            2 => Just(ROp::Undo),
            1 => Just(ROp::Probe),
            1 => Just(ROp::CloneBoard),
        ],
        2..max,
    )
    .boxed()
}

fn choose_rep(pos: &Pos, legal: &[Mv], op: &ROp, own_last: Option<&Mv>) -> Option<Mv> {
    if legal.is_empty() {
        return None;
    }
    match op {
        ROp::Move(s) => Some(gen::select(legal, *s)),
        ROp::Quiet(s) => {
            let q: Vec<Mv> = legal
                .iter()
                .filter(|m| m.cap.is_none() && pos.sq[m.from as usize].map(|x| x.0) != Some(P::Pawn))
                .cloned()
                .collect();
            Some(if q.is_empty() { gen::select(legal, *s) } else { gen::select(&q, *s) })
        }
        ROp::Reverse => {
            let back = own_last.and_then(|l| legal.iter().find(|m| m.from == l.to && m.to == l.from && m.cap.is_none()));
            match back {
                Some(m) => Some(*m),
                None => {
                    let q: Vec<Mv> = legal
                        .iter()
                        .filter(|m| m.cap.is_none() && pos.sq[m.from as usize].map(|x| x.0) != Some(P::Pawn))
                        .cloned()
                        .collect();
                    Some(if q.is_empty() { legal[0] } else { q[0] })
                }
            }
        }
        _ => None,
    }
}

pub struct C17Board;
impl Prop for C17Board {
    type Case = RepCase;
    fn name(&self) -> &'static str {
        "C17/board"
    }
    fn strategy(&self, _tier: Tier) -> BoxedStrategy<RepCase> {
        prop_oneof![
            12 => (rep_seed(), rep_ops(90)).prop_map(|(fen, ops)| RepCase { fen, ops }),
            // long lines: more than a hundred registered plies (the half-move clock passes 100),
            // a partial or full unwinding, then shuffling on what is left
            1 => (
                rep_seed(),
                prop::collection::vec(prop_oneof![5 => any::<u16>().prop_map(ROp::Quiet), 2 => Just(ROp::Reverse), 1 => any::<u16>().prop_map(ROp::Move)], 100..150),
                0usize..160,
                rep_ops(24),
            )
                .prop_map(|(fen, mut ops, unwind, tail)| {
                    ops.extend(std::iter::repeat(ROp::Undo).take(unwind));
                    ops.extend(tail);
                    RepCase { fen, ops }
                }),
        ]
        .boxed()
    }
    fn cases(&self, tier: Tier) -> u32 {
        tier.pick(60_000, 400_000)
    }
    fn test(&self, c: &RepCase, st: &mut Stats) -> TestResult {
        let mut seed = Pos::from_fen(&c.fen).map_err(Failure::new)?;
        seed.half = 0;
        let mut board: Board = to_board(&seed);
        let mut cur = seed.clone();
        let mut lit: BTreeMap<Key, u32> = BTreeMap::new();
        let mut fide: BTreeMap<Key, u32> = BTreeMap::new();
        let mut placements: BTreeMap<Vec<Option<(P, Side)>>, BTreeSet<(Side, u8, Option<u8>)>> = BTreeMap::new();
        // reported counts, mirroring the engine's "last reported" stack
        let mut reported: Vec<u32> = vec![1];
        let mut stack: Vec<(Pos, Mv)> = Vec::new();
        let mut recurrence = false;
        let mut lookalike = false;
        let mut ambiguous = 0u64;
        let mut max_depth = 0usize;

        let mut register = |board: &mut Board,
                            cur: &Pos,
                            lit: &mut BTreeMap<Key, u32>,
                            fide: &mut BTreeMap<Key, u32>,
                            reported: &mut Vec<u32>,
                            recurrence: &mut bool,
                            lookalike: &mut bool,
                            ambiguous: &mut u64|
         -> TestResult {
            let got = board.count_current_position() as u32;
            let a = {
                let e = lit.entry(key_literal(cur)).or_insert(0);
                *e += 1;
                *e
            };
            let b = {
                let e = fide.entry(key_fide(cur)).or_insert(0);
                *e += 1;
                *e
            };
            let set = placements.entry(cur.sq.to_vec()).or_default();
            if set.iter().any(|x| *x != (cur.side, cur.rights, cur.ep)) {
                *lookalike = true;
            }
            set.insert((cur.side, cur.rights, cur.ep));
            if a >= 2 {
                *recurrence = true;
            }
            reported.push(got);
            if a != b {
                *ambiguous += 1;
                return Ok(());
            }
            if got != a {
                return Err(fail_pos(
                    format!("count_current_position() = {} but this position (placement, side, rights, ep) has been registered {} times", got, a),
                    cur,
                ));
            }
            Ok(())
        };
        register(&mut board, &cur, &mut lit, &mut fide, &mut reported, &mut recurrence, &mut lookalike, &mut ambiguous)?;

        for op in &c.ops {
            match op {
                ROp::Undo => {
                    if let Some((prev, m)) = stack.pop() {
                        let got = board.uncount_current_position() as u32;
                        let a = {
                            let e = lit.get_mut(&key_literal(&cur)).unwrap();
                            *e -= 1;
                            *e
                        };
                        let b = {
                            let e = fide.get_mut(&key_fide(&cur)).unwrap();
                            *e -= 1;
                            *e
                        };
                        reported.pop();
                        if a == b && got != a {
                            return Err(fail_pos(
                                format!("uncount_current_position() = {} but {} registrations of this position remain", got, a),
                                &cur,
                            ));
                        }
                        let ms = board.max_seen_position_count() as u32;
                        if ms != *reported.last().unwrap() {
                            return Err(fail_pos(
                                format!("after unregistering, max_seen_position_count() = {} but the last reported count was {}", ms, reported.last().unwrap()),
                                &cur,
                            ));
                        }
                        board.toggle_turn();
                        chess_move_of(&m).undo(&mut board).map_err(|e| fail_pos(format!("undo failed: {:?}", e), &prev))?;
                        cur = prev;
                    }
                }
                ROp::CloneBoard => {
                    board = board.clone();
                    st.label("continued-on-a-clone");
                }
                ROp::Probe => {
                    let ms = board.max_seen_position_count() as u32;
                    if ms != *reported.last().unwrap() {
                        return Err(fail_pos(
                            format!("max_seen_position_count() = {} but the last reported count was {}", ms, reported.last().unwrap()),
                            &cur,
                        ));
                    }
                }
                _ => {
                    let legal = cur.legal_moves();
                    let own_last = if stack.len() >= 2 { Some(&stack[stack.len() - 2].1) } else { None };
                    if let Some(m) = choose_rep(&cur, &legal, op, own_last) {
                        // keep counts small (u8 in the engine) and games legal
                        if lit.get(&key_literal(&cur.make(&m))).copied().unwrap_or(0) >= 6 || cur.half >= 140 {
                            continue;
                        }
                        chess_move_of(&m).apply(&mut board).map_err(|e| fail_pos(format!("apply failed: {:?}", e), &cur))?;
                        board.toggle_turn();
                        let next = cur.make(&m);
                        stack.push((std::mem::replace(&mut cur, next), m));
                        max_depth = max_depth.max(stack.len());
                        register(&mut board, &cur, &mut lit, &mut fide, &mut reported, &mut recurrence, &mut lookalike, &mut ambiguous)?;
                    }
                }
            }
        }
        st.count("ep_ambiguous_steps_not_asserted", ambiguous);
        if recurrence {
            st.label("recurrence");
        }
        if lookalike {
            st.label("look-alike");
        }
        if max_depth > 100 {
            st.label("more-than-100-registered-plies-in-a-line");
        }
        if recurrence && lookalike {
            st.nontrivial(fp_of(c), || json!({"seed": c.fen, "ops": format!("{:?}", &c.ops[..c.ops.len().min(16)])}));
        }
        Ok(())
    }
}

pub struct C17Game;
impl Prop for C17Game {
    type Case = RepCase;
    fn name(&self) -> &'static str {
        "C17/game"
    }
    fn strategy(&self, _tier: Tier) -> BoxedStrategy<RepCase> {
        (
            rep_seed(),
            prop::collection::vec(
                prop_oneof![
                    2 => any::<u16>().prop_map(ROp::Move),
                    5 => any::<u16>().prop_map(ROp::Quiet),
                    10 => Just(ROp::Reverse),
                ],
                4..60,
            ),
        )
            .prop_map(|(fen, ops)| RepCase { fen, ops })
            .boxed()
    }
    fn cases(&self, tier: Tier) -> u32 {
        tier.pick(3_000, 16_000)
    }
    fn test(&self, c: &RepCase, st: &mut Stats) -> TestResult {
        let mut cur = Pos::from_fen(&c.fen).map_err(Failure::new)?;
        cur.half = 0;
        let from_start = c.fen == STANDARD[0].1;
        let mut game = if from_start { Game::new(1) } else { Game::from_board(to_board(&cur), 1) };
        let mut lit: BTreeMap<Key, u32> = BTreeMap::new();
        let mut fide: BTreeMap<Key, u32> = BTreeMap::new();
        lit.insert(key_literal(&cur), 1);
        fide.insert(key_fide(&cur), 1);
        let mut history: Vec<Mv> = Vec::new();
        let mut third = false;
        for op in &c.ops {
            let legal = cur.legal_moves();
            if legal.is_empty() {
                break;
            }
            let own_last = if history.len() >= 2 { Some(&history[history.len() - 2]) } else { None };
            let m = match choose_rep(&cur, &legal, op, own_last) {
                Some(m) => m,
                None => continue,
            };
            let played = game
                .apply_chess_move_by_from_to_coordinates(bb(m.from), bb(m.to))
                .map_err(|e| fail_pos(format!("legal move {} rejected by the game: {:?}", mv_text(&m), e), &cur))?;
            game.board_mut().toggle_turn();
            let played = mv_of(&played);
            cur = cur.make(&played);
            history.push(played);
            let a = {
                let e = lit.entry(key_literal(&cur)).or_insert(0);
                *e += 1;
                *e
            };
            let b = {
                let e = fide.entry(key_fide(&cur)).or_insert(0);
                *e += 1;
                *e
            };
            if cur.legal_moves().is_empty() {
                break;
            }
            let ending = game.check_game_over_for_current_turn();
            let is_draw = matches!(ending, Some(GameEnding::Draw));
            st.count("game_positions_checked", 1);
            if a != b {
                st.count("ep_ambiguous_steps_not_asserted", 1);
                if is_draw {
                    break;
                }
                continue;
            }
            let want = a >= 3 || cur.half >= 100;
            if is_draw != want {
                return Err(fail_pos(
                    format!(
                        "after {} moves through the Game API the current position has occurred {} time(s) (half-move clock {}), but check_game_over_for_current_turn() = {:?}",
                        history.len(),
                        a,
                        cur.half,
                        ending
                    ),
                    &cur,
                )
                .sig(if a >= 3 && !is_draw { "C17:game-third-occurrence-not-drawn" } else { "" }));
            }
            if a >= 3 {
                third = true;
                break;
            }
        }
        if third {
            st.label("third-occurrence-reached");
            st.nontrivial(fp_of(c), || json!({"seed": c.fen, "moves": history.iter().map(notation::uci).collect::<Vec<_>>().join(" ")}));
        }
        Ok(())
    }
}

/// The engine plays both sides through Game::make_waterfall_book_then_alpha_beta_move (as the
/// `watch` loop does): every move made must be legal and produce the reference successor, and
/// the draw verdict must follow the occurrence count of the reference multiset.
#[derive(Clone, Debug, Serialize, Deserialize)]
pub struct EngineGameCase {
    pub fen: String,
    pub plies: u8,
    pub depth: u8,
}

pub struct C17EngineGame;
impl Prop for C17EngineGame {
    type Case = EngineGameCase;
    fn name(&self) -> &'static str {
        "C17/engine-game"
    }
    fn max_shrink_iters(&self) -> u32 {
        100
    }
    fn strategy(&self, _tier: Tier) -> BoxedStrategy<EngineGameCase> {
        let zero = |mut p: Pos| {
            p.half = 0;
            p.fen()
        };
        (
            prop_oneof![
                5 => gen::endgame(2).prop_map(move |r| zero(gen::build(&r))),
                2 => gen::endgame(4).prop_map(move |r| zero(gen::build(&r))),
                1 => gen::pawn_race().prop_map(move |r| zero(gen::build(&r))),
            ],
            8u8..40,
            1u8..=2,
        )
            .prop_map(|(fen, plies, depth)| EngineGameCase { fen, plies, depth })
            .boxed()
    }
    fn cases(&self, tier: Tier) -> u32 {
        tier.pick(192, 2_400)
    }
    fn test(&self, c: &EngineGameCase, st: &mut Stats) -> TestResult {
        let mut cur = Pos::from_fen(&c.fen).map_err(Failure::new)?;
        cur.half = 0;
        let depth = if cur.men() > 4 { 1 } else { c.depth };
        let mut game = Game::from_board(to_board(&cur), depth);
        let mut lit: BTreeMap<Key, u32> = BTreeMap::new();
        let mut fide: BTreeMap<Key, u32> = BTreeMap::new();
        lit.insert(key_literal(&cur), 1);
        fide.insert(key_fide(&cur), 1);
        let mut moves: Vec<Mv> = Vec::new();
        let mut max_count = 1;
        for _ in 0..c.plies {
            let legal = cur.legal_moves();
            if legal.is_empty() {
                break;
            }
            let made = match no_panic(|| game.make_waterfall_book_then_alpha_beta_move()) {
                Ok(Ok(m)) => mv_of(&m),
                Ok(Err(e)) => return Err(fail_pos(format!("the engine could not make a move: {:?}", e), &cur)),
                Err(m) => return Err(fail_pos(format!("making the engine's move panicked: {}", m), &cur)),
            };
            if !legal.contains(&made) {
                return Err(fail_pos(format!("the engine made {}, which is not legal", mv_text(&made)), &cur));
            }
            let next = cur.make(&made);
            if let Err(e) = successor_matches(&game, &next, cur.side) {
                return Err(fail_pos(format!("after the engine's own move {}: {}", mv_text(&made), e), &cur));
            }
            ensure!(
                game.most_recent_move().map(|m| mv_of(&m)) == Some(made),
                "the engine's move {} is not the most recent move of the history",
                mv_text(&made)
            );
            game.board_mut().toggle_turn();
            cur = next;
            moves.push(made);
            let a = {
                let e = lit.entry(key_literal(&cur)).or_insert(0);
                *e += 1;
                *e
            };
            let b = {
                let e = fide.entry(key_fide(&cur)).or_insert(0);
                *e += 1;
                *e
            };
            max_count = max_count.max(a);
            if cur.legal_moves().is_empty() {
                break;
            }
            let ending = game.check_game_over_for_current_turn();
            let is_draw = matches!(ending, Some(GameEnding::Draw));
            st.count("engine_moves_checked", 1);
            if a != b {
                if is_draw {
                    break;
                }
                continue;
            }
            let want = a >= 3 || cur.half >= 100;
            if is_draw != want {
                return Err(fail_pos(
                    format!(
                        "after {} engine moves the current position has occurred {} time(s) (half-move clock {}), but check_game_over_for_current_turn() = {:?}",
                        moves.len(),
                        a,
                        cur.half,
                        ending
                    ),
                    &cur,
                ));
            }
            if want {
                break;
            }
        }
        if max_count >= 2 {
            st.label(if max_count >= 3 { "third-occurrence-reached" } else { "recurrence" });
            st.nontrivial(fp_of(c), || json!({"seed": c.fen, "depth": depth, "moves": moves.iter().map(notation::uci).collect::<Vec<_>>().join(" ")}));
        }
        Ok(())
    }
}

/// C16 at the level of the Game API: counters read through Game while a game is played by
/// coordinate pairs, and the move-count draw as the game loops see it.
pub struct C16GameApi;
impl Prop for C16GameApi {
    type Case = RepCase;
    fn name(&self) -> &'static str {
        "C16/game-api"
    }
    fn max_shrink_iters(&self) -> u32 {
        300
    }
    fn strategy(&self, _tier: Tier) -> BoxedStrategy<RepCase> {
        (
            prop_oneof![
                2 => Just(STANDARD[0].1.to_string()),
                2 => gen::seed_fen(),
                3 => gen::endgame(4).prop_map(|r| gen::build(&r).fen()),
            ],
            prop::collection::vec(
                prop_oneof![
                    6 => any::<u16>().prop_map(ROp::Quiet),
                    3 => any::<u16>().prop_map(ROp::Move),
                ],
                20..260,
            ),
            0u8..90,
        )
            .prop_map(|(fen, ops, half)| {
                let mut p = Pos::from_fen(&fen).unwrap();
                p.half = half as u32;
                RepCase { fen: p.fen(), ops }
            })
            .boxed()
    }
    fn cases(&self, tier: Tier) -> u32 {
        tier.pick(3_000, 15_000)
    }
    fn test(&self, c: &RepCase, st: &mut Stats) -> TestResult {
        let mut cur = Pos::from_fen(&c.fen).map_err(Failure::new)?;
        cur.ply = 0;
        let mut game = Game::from_board(to_board(&cur), 1);
        let mut counts: BTreeMap<Key, u32> = BTreeMap::new();
        let mut fide: BTreeMap<Key, u32> = BTreeMap::new();
        counts.insert(key_literal(&cur), 1);
        fide.insert(key_fide(&cur), 1);
        let mut max_half = cur.half;
        let mut reached_draw = false;
        for op in &c.ops {
            let legal = cur.legal_moves();
            if legal.is_empty() {
                break;
            }
            let m = match choose_rep(&cur, &legal, op, None) {
                Some(m) => m,
                None => continue,
            };
            // never beyond what a legal game allows (the 75-move rule ends it at 150)
            if cur.half >= 149 && m.cap.is_none() && cur.sq[m.from as usize].map(|x| x.0) != Some(P::Pawn) {
                break;
            }
            let played = game
                .apply_chess_move_by_from_to_coordinates(bb(m.from), bb(m.to))
                .map_err(|e| fail_pos(format!("legal move {} rejected by the game: {:?}", mv_text(&m), e), &cur))?;
            game.board_mut().toggle_turn();
            cur = cur.make(&mv_of(&played));
            max_half = max_half.max(cur.half);
            let full = game.fullmove_clock() as u64;
            if full != 1 + cur.ply as u64 {
                return Err(fail_pos(format!("Game::fullmove_clock() = {} after {} moves (expected {})", full, cur.ply, 1 + cur.ply), &cur));
            }
            let half = game.board().halfmove_clock() as u32;
            if half != cur.half {
                return Err(fail_pos(format!("half-move clock {} through the Game API but {} plies since the last capture or pawn move", half, cur.half), &cur));
            }
            st.count("game_api_moves", 1);
            let a = {
                let e = counts.entry(key_literal(&cur)).or_insert(0);
                *e += 1;
                *e
            };
            let b = {
                let e = fide.entry(key_fide(&cur)).or_insert(0);
                *e += 1;
                *e
            };
            if cur.legal_moves().is_empty() {
                break;
            }
            let ending = game.check_game_over_for_current_turn();
            let is_draw = matches!(ending, Some(GameEnding::Draw));
            if a >= 3 || b >= 3 {
                break; // repetition is C17's business
            }
            let want = cur.half >= 100;
            if is_draw != want {
                return Err(fail_pos(
                    format!("check_game_over_for_current_turn() = {:?} with half-move clock {} (no repetition): draw expected: {}", ending, cur.half, want),
                    &cur,
                ));
            }
            if want {
                reached_draw = true;
                break;
            }
        }
        if max_half >= 50 {
            st.label(if reached_draw { "draw-at-100-through-game-api" } else { "clock>=50-through-game-api" });
            st.nontrivial(fp_of(c), || json!({"seed": c.fen, "max_half_move_clock": max_half}));
        }
        Ok(())
    }
}

/// From the standard start: some moves are made by the engine (opening book first, then search)
/// through make_waterfall_book_then_alpha_beta_move, the others are typed with a shuffling
/// policy, all on one Game. Every position counts, whoever produced it.
#[derive(Clone, Debug, Serialize, Deserialize)]
pub struct MixedCase {
    /// None = the engine moves, Some(op) = a typed move
    pub ops: Vec<Option<ROp>>,
}

pub struct C17MixedGame;
impl Prop for C17MixedGame {
    type Case = MixedCase;
    fn name(&self) -> &'static str {
        "C17/mixed-game"
    }
    fn max_shrink_iters(&self) -> u32 {
        150
    }
    fn strategy(&self, _tier: Tier) -> BoxedStrategy<MixedCase> {
        prop::collection::vec(
            prop_oneof![
                3 => Just(None),
                2 => any::<u16>().prop_map(|s| Some(ROp::Quiet(s))),
                1 => any::<u16>().prop_map(|s| Some(ROp::Move(s))),
                8 => Just(Some(ROp::Reverse)),
                // "Probe" stands for two full out-and-back cycles (eight Reverse plies)
                4 => Just(Some(ROp::Probe)),
            ],
            6..40,
        )
        .prop_map(|ops| {
            // expand the cycle macro so that the interpreter below sees plain operations
            let mut out = Vec::new();
            for op in ops {
                if op == Some(ROp::Probe) {
                    for _ in 0..8 {
                        out.push(Some(ROp::Reverse));
                    }
                } else {
                    out.push(op);
                }
            }
            MixedCase { ops: out }
        })
        .boxed()
    }
    fn cases(&self, tier: Tier) -> u32 {
        tier.pick(1_200, 8_000)
    }
    fn test(&self, c: &MixedCase, st: &mut Stats) -> TestResult {
        let mut cur = Pos::start();
        let mut game = Game::new(1);
        let book = Book::default();
        let mut lit: BTreeMap<Key, u32> = BTreeMap::new();
        let mut fide: BTreeMap<Key, u32> = BTreeMap::new();
        lit.insert(key_literal(&cur), 1);
        fide.insert(key_fide(&cur), 1);
        let mut history: Vec<Mv> = Vec::new();
        let mut book_moves = 0u32;
        let mut max_count = 1;
        for op in &c.ops {
            let legal = cur.legal_moves();
            if legal.is_empty() {
                break;
            }
            let played = match op {
                None => {
                    let in_book = !book_children(&book, &history).is_empty();
                    let m = match no_panic(|| game.make_waterfall_book_then_alpha_beta_move()) {
                        Ok(Ok(m)) => mv_of(&m),
                        Ok(Err(e)) => return Err(fail_pos(format!("the engine could not make a move: {:?}", e), &cur)),
                        Err(m) => return Err(fail_pos(format!("making the engine's move panicked: {}", m), &cur)),
                    };
                    if !legal.contains(&m) {
                        return Err(fail_pos(format!("the engine made {}, which is not legal", mv_text(&m)), &cur));
                    }
                    if in_book {
                        book_moves += 1;
                    }
                    m
                }
                Some(rop) => {
                    let own_last = if history.len() >= 2 { Some(&history[history.len() - 2]) } else { None };
                    let m = match choose_rep(&cur, &legal, rop, own_last) {
                        Some(m) => m,
                        None => continue,
                    };
                    let pm = game
                        .apply_chess_move_by_from_to_coordinates(bb(m.from), bb(m.to))
                        .map_err(|e| fail_pos(format!("legal move {} rejected by the game: {:?}", mv_text(&m), e), &cur))?;
                    mv_of(&pm)
                }
            };
            game.board_mut().toggle_turn();
            cur = cur.make(&played);
            history.push(played);
            let a = {
                let e = lit.entry(key_literal(&cur)).or_insert(0);
                *e += 1;
                *e
            };
            let b = {
                let e = fide.entry(key_fide(&cur)).or_insert(0);
                *e += 1;
                *e
            };
            max_count = max_count.max(a);
            if cur.legal_moves().is_empty() {
                break;
            }
            let ending = game.check_game_over_for_current_turn();
            let is_draw = matches!(ending, Some(GameEnding::Draw));
            st.count("mixed_game_positions", 1);
            if a != b {
                if is_draw {
                    break;
                }
                continue;
            }
            let want = a >= 3 || cur.half >= 100;
            if is_draw != want {
                return Err(fail_pos(
                    format!(
                        "after {} moves (engine and typed) the current position has occurred {} time(s), but check_game_over_for_current_turn() = {:?}",
                        history.len(),
                        a,
                        ending
                    ),
                    &cur,
                ));
            }
            if want {
                break;
            }
        }
        if max_count >= 2 && book_moves >= 1 {
            st.label(if max_count >= 3 { "third-occurrence-after-book-moves" } else { "recurrence-after-book-moves" });
            st.nontrivial(fp_of(c), || json!({"moves": history.iter().map(notation::uci).collect::<Vec<_>>().join(" "), "engine_book_moves": book_moves}));
        }
        Ok(())
    }
}

pub fn c17_checks() -> Vec<Box<dyn DynCheck>> {
    vec![Box::new(C17Board), Box::new(C17Game), Box::new(C17EngineGame), Box::new(C17MixedGame)]
}

#[allow(dead_code)]
fn _unused(_: Value) {}
