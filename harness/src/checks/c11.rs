//! C11 - attack geometry tables are exact for every square, occupancy and build.

use super::util::*;
use crate::bridge::*;
use crate::oracle::*;
use crate::runner::*;
use chess::board::color::Color;
use chess::board::piece::Piece;
use chess::board::Board;
use chess::move_generator::MoveGenerator;
use rayon::prelude::*;
use serde_json::{json, Value};

pub const RULE: &str = "for the tables compiled into this build: every square x EVERY subset of the relevant blocker mask (inner ray squares) for the rook (102,400 cases) and the bishop (5,248 cases), enumerated completely with the carry-rippler, blockers placed as enemy pieces of every kind (pawn, knight, bishop, rook, queen and at most one king, chosen per square), each also with variants adding enemy pieces on the ray-end edge squares and off the rays; queens on every square with generated occupancies; knights and kings on all 64 squares alone and with generated enemy neighbours, and crowds of 2..18 knights plus the king of one colour (half of them packed around one knight so that it has no free square): the colour's map must be the union of the on-board offsets without the squares its own pieces stand on. Observed through MoveGenerator::get_attack_targets on a board holding the single piece under test for its colour (both colours are used). Oracle: ray walking in (file, rank) coordinates up to and including the first occupied square; L-shaped / adjacent offsets computed in coordinates (no bit shifts). One-generator stress: 2^19 (quick) / 2^24 (thorough) generated boards are put to each of four generators that are never renewed, so two boards that the attack-map cache cannot tell apart would meet. Builds: N in-process runs of the build script's magic search (precompile::magic::find_magics::find_and_write_all_magics) are parsed and checked with the documented index formula offset + ((occ & mask) * magic >> shift): mask == inner rays, filling by ray walking is collision-free, segments do not overlap, declared table size matches; the thorough tier also forces a clean rebuild so the compiled tables come from a new draw. Non-trivial = at least one blocker on a ray or an edge/corner square; distinct = (piece, square, occupancy).";

fn ray_attacks(sq: u8, occ: u64, dirs: &[(i8, i8)]) -> u64 {
    let mut out = 0u64;
    for (df, dr) in dirs {
        let (mut f, mut r) = (file_of(sq) + df, rank_of(sq) + dr);
        while let Some(s) = sq_of(f, r) {
            out |= 1u64 << s;
            if occ >> s & 1 == 1 {
                break;
            }
            f += df;
            r += dr;
        }
    }
    out
}

const ROOK_DIRS: [(i8, i8); 4] = [(1, 0), (0, 1), (-1, 0), (0, -1)];
const BISHOP_DIRS: [(i8, i8); 4] = [(1, 1), (-1, 1), (-1, -1), (1, -1)];

/// Inner ray squares: the ray without its last (edge) square.
fn relevant_mask(sq: u8, dirs: &[(i8, i8)]) -> u64 {
    let mut out = 0u64;
    for (df, dr) in dirs {
        let (mut f, mut r) = (file_of(sq) + df, rank_of(sq) + dr);
        while let Some(s) = sq_of(f, r) {
            if sq_of(f + df, r + dr).is_none() {
                break;
            }
            out |= 1u64 << s;
            f += df;
            r += dr;
        }
    }
    out
}

fn offsets_attacks(sq: u8, ds: &[(i8, i8)]) -> u64 {
    let mut out = 0u64;
    for (df, dr) in ds {
        if let Some(s) = sq_of(file_of(sq) + df, rank_of(sq) + dr) {
            out |= 1u64 << s;
        }
    }
    out
}

const KNIGHT_DS: [(i8, i8); 8] = [(1, 2), (2, 1), (2, -1), (1, -2), (-1, -2), (-2, -1), (-2, 1), (-1, 2)];
const KING_DS: [(i8, i8); 8] = [(1, 0), (1, 1), (0, 1), (-1, 1), (-1, 0), (-1, -1), (0, -1), (1, -1)];

fn xorshift(x: &mut u64) -> u64 {
    *x ^= *x << 13;
    *x ^= *x >> 7;
    *x ^= *x << 17;
    *x
}

/// Board with `piece` of `white` on `sq` and enemy knights on `enemy_occ`.
fn lone_piece_board(piece: Piece, white: bool, sq: u8, enemy_occ: u64, own_occ: u64) -> Board {
    let (own, enemy) = if white { (Color::White, Color::Black) } else { (Color::Black, Color::White) };
    let mut b = Board::new();
    b.put(bb(sq), piece, own).unwrap();
    // blockers of every kind (what stands on a square must not matter), at most one enemy king
    let mut king_used = false;
    for s in 0..64u8 {
        if s == sq {
            continue;
        }
        if enemy_occ >> s & 1 == 1 {
            let h = (enemy_occ ^ (s as u64).wrapping_mul(0x9E3779B97F4A7C15)).wrapping_mul(0xD6E8FEB86659FD93) >> 61;
            let back = rank_of(s) == 0 || rank_of(s) == 7;
            let kind = match h % 6 {
                0 if !back => Piece::Pawn,
                1 => Piece::Bishop,
                2 => Piece::Rook,
                3 => Piece::Queen,
                4 if !king_used => {
                    king_used = true;
                    Piece::King
                }
                _ => Piece::Knight,
            };
            b.put(bb(s), kind, enemy).unwrap();
        }
    }
    let _ = own_occ;
    b
}

struct Case {
    piece: &'static str,
    sq: u8,
    occ: u64,
    white: bool,
}

fn check_slider(
    g: &mut MoveGenerator,
    piece: Piece,
    name: &'static str,
    dirs: &[(i8, i8)],
    sq: u8,
    occ: u64,
    white: bool,
    st: &mut Stats,
) -> Result<(), (Case, String)> {
    let occ = occ & !(1u64 << sq);
    let b = lone_piece_board(piece, white, sq, occ, 0);
    let got = g.get_attack_targets(&b, if white { Color::White } else { Color::Black }).0;
    let want = ray_attacks(sq, occ, dirs);
    st.eval();
    let edge = file_of(sq) == 0 || file_of(sq) == 7 || rank_of(sq) == 0 || rank_of(sq) == 7;
    if occ & want != 0 || edge {
        let fp = (occ ^ ((sq as u64) << 58)).wrapping_mul(0x9E3779B97F4A7C15) ^ (name.len() as u64) ^ white as u64;
        st.nontrivial(fp, || json!({"piece": name, "square": sq_name(sq), "occupancy": format!("{:#018x}", occ), "attacks": format!("{:#018x}", want)}));
    }
    if got != want {
        return Err((
            Case {
                piece: name,
                sq,
                occ,
                white,
            },
            format!(
                "{} on {} with occupancy {:#018x}: reported attacks {:#018x}, ray walking gives {:#018x}",
                name,
                sq_name(sq),
                occ,
                got,
                want
            ),
        ));
    }
    Ok(())
}

fn case_json(c: &Case) -> Value {
    json!({"piece": c.piece, "square": c.sq, "occupancy": c.occ, "white": c.white})
}

fn replay_case(v: &Value) -> Result<TestResult, String> {
    let piece = v["piece"].as_str().ok_or("piece")?;
    let sq = v["square"].as_u64().ok_or("square")? as u8;
    let occ = v["occupancy"].as_u64().ok_or("occupancy")?;
    let white = v["white"].as_bool().unwrap_or(true);
    let mut g = MoveGenerator::new();
    let mut st = Stats::default();
    let r = match piece {
        "rook" => check_slider(&mut g, Piece::Rook, "rook", &ROOK_DIRS, sq, occ, white, &mut st),
        "bishop" => check_slider(&mut g, Piece::Bishop, "bishop", &BISHOP_DIRS, sq, occ, white, &mut st),
        "queen" => {
            let dirs: Vec<(i8, i8)> = ROOK_DIRS.iter().chain(BISHOP_DIRS.iter()).cloned().collect();
            check_slider(&mut g, Piece::Queen, "queen", &dirs, sq, occ, white, &mut st)
        }
        "knight" | "king" => check_leaper(&mut g, piece == "knight", sq, occ, 0, white, &mut st),
        "knight-crowd" => check_leaper_crowd(&mut g, occ, sq, white, &mut st),
        _ => return Err("unknown piece".into()),
    };
    Ok(r.map_err(|(_, m)| Failure::new(m)))
}

/// Several knights (and a king) of one colour: the colour's map is the union of their on-board
/// offsets without the squares its own pieces stand on - also when one of the knights has no
/// free square at all.
fn check_leaper_crowd(g: &mut MoveGenerator, knights: u64, king: u8, white: bool, st: &mut Stats) -> Result<(), (Case, String)> {
    let own = if white { Color::White } else { Color::Black };
    let mut b = Board::new();
    let mut own_occ = knights;
    let mut want = 0u64;
    let mut smothered = false;
    if king < 64 && knights >> king & 1 == 0 {
        b.put(bb(king), Piece::King, own).unwrap();
        own_occ |= 1u64 << king;
        want |= offsets_attacks(king, &KING_DS);
    }
    for s in 0..64u8 {
        if knights >> s & 1 == 1 {
            b.put(bb(s), Piece::Knight, own).unwrap();
            want |= offsets_attacks(s, &KNIGHT_DS);
        }
    }
    for s in 0..64u8 {
        if knights >> s & 1 == 1 && offsets_attacks(s, &KNIGHT_DS) & !own_occ == 0 {
            smothered = true;
        }
    }
    want &= !own_occ;
    let got = g.get_attack_targets(&b, own).0;
    st.eval();
    if smothered {
        st.label("a-knight-without-a-free-square");
    }
    st.nontrivial(knights.wrapping_mul(0x9E3779B97F4A7C15) ^ king as u64 ^ ((white as u64) << 7), || {
        json!({"piece": "knight-crowd", "knights": format!("{:#018x}", knights), "king": if king < 64 { sq_name(king) } else { "-".into() }, "white": white})
    });
    if got != want {
        return Err((
            Case {
                piece: "knight-crowd",
                sq: king,
                occ: knights,
                white,
            },
            format!(
                "knights on {:#018x} and king on {} of one colour: reported attacks {:#018x}, the union of the on-board offsets without own squares is {:#018x}",
                knights,
                if king < 64 { sq_name(king) } else { "-".into() },
                got,
                want
            ),
        ));
    }
    Ok(())
}

fn check_leaper(
    g: &mut MoveGenerator,
    knight: bool,
    sq: u8,
    enemy: u64,
    _own: u64,
    white: bool,
    st: &mut Stats,
) -> Result<(), (Case, String)> {
    let name = if knight { "knight" } else { "king" };
    let enemy = enemy & !(1u64 << sq);
    let b = lone_piece_board(if knight { Piece::Knight } else { Piece::King }, white, sq, enemy, 0);
    let got = g.get_attack_targets(&b, if white { Color::White } else { Color::Black }).0;
    let want = offsets_attacks(sq, if knight { &KNIGHT_DS } else { &KING_DS });
    st.eval();
    let edge = file_of(sq) <= 1 || file_of(sq) >= 6 || rank_of(sq) <= 1 || rank_of(sq) >= 6;
    if edge || enemy & want != 0 {
        st.nontrivial(
            (enemy ^ ((sq as u64) << 57)).wrapping_mul(0xD6E8FEB86659FD93) ^ knight as u64 ^ ((white as u64) << 1),
            || json!({"piece": name, "square": sq_name(sq), "enemy_occupancy": format!("{:#018x}", enemy)}),
        );
    }
    if got != want {
        return Err((
            Case {
                piece: name,
                sq,
                occ: enemy,
                white,
            },
            format!(
                "{} on {} (enemy pieces {:#018x}): reported attacks {:#018x}, the on-board offsets are {:#018x}",
                name,
                sq_name(sq),
                enemy,
                got,
                want
            ),
        ));
    }
    Ok(())
}

fn run_compiled(env: &Env, agg: &mut Stats) -> Option<Violation> {
    let name = "C11/compiled-tables";
    let variants = env.tier.pick(2u32, 8u32);
    let queen_occ = env.tier.pick(2_000u32, 20_000u32);
    let seed = env.seed;
    let results: Vec<(Stats, Option<(Case, String)>)> = (0..64u8)
        .into_par_iter()
        .map(|sq| {
            let mut st = Stats::default();
            let mut g = MoveGenerator::new();
            let mut rng = (seed ^ (sq as u64 + 1).wrapping_mul(0x9E3779B97F4A7C15)) | 1;
            let mut run = || -> Result<(), (Case, String)> {
                let mut queries = 0u32;
                for (piece, pname, dirs) in [
                    (Piece::Rook, "rook", &ROOK_DIRS),
                    (Piece::Bishop, "bishop", &BISHOP_DIRS),
                ] {
                    let mask = relevant_mask(sq, dirs);
                    let full_rays = ray_attacks(sq, 0, dirs);
                    let edge_ends = full_rays & !mask;
                    let mut sub = 0u64;
                    loop {
                        let white = (sub.count_ones() + sq as u32) % 2 == 0;
                        check_slider(&mut g, piece, pname, dirs, sq, sub, white, &mut st)?;
                        for _ in 0..variants {
                            let r = xorshift(&mut rng);
                            // extra enemy pieces: off the rays and on the ray-end edge squares
                            let extra = (r & !full_rays) | (xorshift(&mut rng) & edge_ends);
                            check_slider(&mut g, piece, pname, dirs, sq, sub | extra, white, &mut st)?;
                        }
                        queries += 1 + variants;
                        if queries >= 4096 {
                            g = MoveGenerator::new();
                            queries = 0;
                        }
                        sub = sub.wrapping_sub(mask) & mask;
                        if sub == 0 {
                            break;
                        }
                    }
                }
                let qdirs: Vec<(i8, i8)> = ROOK_DIRS.iter().chain(BISHOP_DIRS.iter()).cloned().collect();
                for i in 0..queen_occ {
                    let density = i % 3;
                    let mut occ = xorshift(&mut rng);
                    for _ in 0..density {
                        occ &= xorshift(&mut rng);
                    }
                    check_slider(&mut g, Piece::Queen, "queen", &qdirs, sq, occ, i % 2 == 0, &mut st)?;
                    if i % 4096 == 4095 {
                        g = MoveGenerator::new();
                    }
                }
                for knight in [true, false] {
                    check_leaper(&mut g, knight, sq, 0, 0, true, &mut st)?;
                    check_leaper(&mut g, knight, sq, 0, 0, false, &mut st)?;
                    for i in 0..200u32 {
                        let enemy = xorshift(&mut rng) & xorshift(&mut rng);
                        check_leaper(&mut g, knight, sq, enemy, 0, i % 2 == 0, &mut st)?;
                    }
                }
                // crowds: a knight on this square with 1..9 more knights of its colour, half of
                // the time packed around it (its own targets occupied), and the colour's king
                for i in 0..300u32 {
                    let around = offsets_attacks(sq, &KNIGHT_DS);
                    let mut knights = 1u64 << sq;
                    if i % 2 == 0 {
                        knights |= around;
                    }
                    let extra = 1 + xorshift(&mut rng) % 9;
                    for _ in 0..extra {
                        knights |= 1u64 << (xorshift(&mut rng) % 64);
                    }
                    if i % 4 == 0 {
                        knights &= !(1u64 << (xorshift(&mut rng) % 64)) | 1u64 << sq;
                    }
                    let king = (xorshift(&mut rng) % 80) as u8;
                    check_leaper_crowd(&mut g, knights, king, i % 3 == 0, &mut st)?;
                }
                Ok(())
            };
            let r = match no_panic(&mut run) {
                Ok(r) => r.err(),
                Err(m) => Some((
                    Case {
                        piece: "panic",
                        sq,
                        occ: 0,
                        white: true,
                    },
                    format!("panic while querying attacks from {}: {}", sq_name(sq), m),
                )),
            };
            (st, r)
        })
        .collect();
    let mut v = None;
    agg.exhaustive = Some("64 squares x every subset of the relevant blocker mask: 102,400 rook and 5,248 bishop occupancies of the compiled tables".into());
    for (st, r) in results {
        agg.merge(st);
        if v.is_none() {
            if let Some((c, msg)) = r {
                v = Some(violation(name, case_json(&c), Failure::new(msg)));
            }
        }
    }
    v
}

// ------------------------------------------------------------------ draws of the magic search

#[derive(Debug)]
struct Entry {
    mask: u64,
    magic: u64,
    shift: u32,
    offset: u64,
}

fn parse_magics(text: &str) -> Result<(Vec<Entry>, Vec<Entry>, u64, u64), String> {
    let mut rook = Vec::new();
    let mut bishop = Vec::new();
    let mut sizes = [0u64; 2];
    let mut which = 0;
    for line in text.lines() {
        if line.contains("ROOK_MAGICS") {
            which = 1;
        } else if line.contains("BISHOP_MAGICS") {
            which = 2;
        }
        if let Some(i) = line.find("MagicEntry {") {
            let body = &line[i..];
            let field = |name: &str| -> Result<u64, String> {
                let k = body.find(&format!("{}:", name)).ok_or(format!("no field {}", name))?;
                let rest = body[k + name.len() + 1..].trim_start();
                let tok: String = rest.chars().take_while(|c| c.is_alphanumeric()).collect();
                if let Some(h) = tok.strip_prefix("0x") {
                    u64::from_str_radix(h, 16).map_err(|e| e.to_string())
                } else {
                    tok.parse::<u64>().map_err(|e| e.to_string())
                }
            };
            let e = Entry {
                mask: field("mask")?,
                magic: field("magic")?,
                shift: field("shift")? as u32,
                offset: field("offset")?,
            };
            match which {
                1 => rook.push(e),
                2 => bishop.push(e),
                _ => return Err("MagicEntry outside a table".into()),
            }
        }
        for (i, n) in ["ROOK_TABLE_SIZE", "BISHOP_TABLE_SIZE"].iter().enumerate() {
            if line.contains(n) {
                let v: String = line.split('=').nth(1).unwrap_or("").chars().filter(|c| c.is_ascii_digit()).collect();
                sizes[i] = v.parse().map_err(|_| "table size")?;
            }
        }
    }
    Ok((rook, bishop, sizes[0], sizes[1]))
}

fn validate_magics(entries: &[Entry], size: u64, dirs: &[(i8, i8)], what: &str) -> Result<u64, String> {
    if entries.len() != 64 {
        return Err(format!("{}: {} entries", what, entries.len()));
    }
    let mut table: Vec<Option<u64>> = vec![None; size as usize];
    let mut owner: Vec<u8> = vec![255; size as usize];
    let mut filled = 0u64;
    for (sq, e) in entries.iter().enumerate() {
        let sq = sq as u8;
        let want_mask = relevant_mask(sq, dirs);
        if e.mask != want_mask {
            return Err(format!("{} {}: mask {:#x} is not the inner rays {:#x}", what, sq_name(sq), e.mask, want_mask));
        }
        if e.shift >= 64 {
            return Err(format!("{} {}: shift {}", what, sq_name(sq), e.shift));
        }
        let mut sub = 0u64;
        loop {
            let idx = e.offset + ((sub & e.mask).wrapping_mul(e.magic) >> e.shift);
            if idx >= size {
                return Err(format!("{} {}: index {} outside the table of {}", what, sq_name(sq), idx, size));
            }
            let attacks = ray_attacks(sq, sub, dirs);
            let i = idx as usize;
            if owner[i] != 255 && owner[i] != sq {
                return Err(format!("{}: segments of {} and {} overlap at slot {}", what, sq_name(owner[i]), sq_name(sq), idx));
            }
            match table[i] {
                None => {
                    table[i] = Some(attacks);
                    owner[i] = sq;
                    filled += 1;
                }
                Some(a) if a == attacks => {}
                Some(a) => {
                    return Err(format!(
                        "{} {}: destructive collision at slot {} ({:#x} vs {:#x}) for blockers {:#x}",
                        what,
                        sq_name(sq),
                        idx,
                        a,
                        attacks,
                        sub
                    ))
                }
            }
            sub = sub.wrapping_sub(e.mask) & e.mask;
            if sub == 0 {
                break;
            }
        }
    }
    Ok(filled)
}

fn run_draws(env: &Env, agg: &mut Stats) -> Option<Violation> {
    let name = "C11/magic-draws";
    let n = env.tier.pick(8, 24);
    let dir = "/verif/target/scratch";
    let _ = std::fs::create_dir_all(dir);
    let results: Vec<Result<(u64, u64, u64), String>> = (0..n)
        .into_par_iter()
        .map(|i| {
            let path = format!("{}/magic_draw_{}_{}.rs", dir, std::process::id(), i);
            {
                let f = std::fs::File::create(&path).map_err(|e| format!("INCONCLUSIVE {}", e))?;
                let mut w = std::io::BufWriter::new(f);
                precompile::magic::find_magics::find_and_write_all_magics(&mut w).map_err(|e| format!("INCONCLUSIVE {}", e))?;
            }
            let text = std::fs::read_to_string(&path).unwrap_or_default();
            let _ = std::fs::remove_file(&path);
            let (rook, bishop, rs, bs) = parse_magics(&text).map_err(|e| format!("INCONCLUSIVE cannot parse generated magics: {}", e))?;
            let fr = validate_magics(&rook, rs, &ROOK_DIRS, "rook")?;
            let fb = validate_magics(&bishop, bs, &BISHOP_DIRS, "bishop")?;
            Ok((fnv(text.as_bytes()), fr, fb))
        })
        .collect();
    for (i, r) in results.into_iter().enumerate() {
        agg.eval();
        match r {
            Ok((h, fr, fb)) => {
                agg.nontrivial(h, || json!({"draw": i, "rook_slots_filled": fr, "bishop_slots_filled": fb}));
                agg.count("magic_blocker_sets_checked", 102_400 + 5_248);
            }
            Err(e) if e.starts_with("INCONCLUSIVE") => {
                eprintln!("{}", e);
                std::process::exit(2);
            }
            Err(e) => {
                return Some(violation(name, json!({"draw": i}), Failure::new(format!("magic search produced an unusable table: {}", e))));
            }
        }
    }
    None
}

/// Many distinct boards put to ONE generator each (its attack-map cache is never renewed):
/// whatever the cache keeps of a position must be enough to tell it from every other one.
fn run_stress(env: &Env, agg: &mut Stats) -> Option<Violation> {
    let name = "C11/one-generator-stress";
    let per_generator: u64 = env.tier.pick(1 << 19, 1 << 24);
    let generators = env.tier.pick(4u64, 4u64);
    let seed = env.seed;
    let results: Vec<(Stats, Option<(Case, String)>)> = (0..generators)
        .into_par_iter()
        .map(|gi| {
            let mut st = Stats::default();
            let mut g = MoveGenerator::new();
            let mut rng = (seed ^ (gi + 1).wrapping_mul(0xD1B54A32D192ED03)) | 1;
            let qdirs: Vec<(i8, i8)> = ROOK_DIRS.iter().chain(BISHOP_DIRS.iter()).cloned().collect();
            let mut run = || -> Result<(), (Case, String)> {
                for i in 0..per_generator {
                    let r = xorshift(&mut rng);
                    let sq = (r % 64) as u8;
                    let mut occ = xorshift(&mut rng);
                    for _ in 0..(r >> 8) % 3 {
                        occ &= xorshift(&mut rng);
                    }
                    let white = (r >> 16) & 1 == 0;
                    match (r >> 20) % 3 {
                        0 => check_slider(&mut g, Piece::Rook, "rook", &ROOK_DIRS, sq, occ, white, &mut st)?,
                        1 => check_slider(&mut g, Piece::Bishop, "bishop", &BISHOP_DIRS, sq, occ, white, &mut st)?,
                        _ => check_slider(&mut g, Piece::Queen, "queen", &qdirs, sq, occ, white, &mut st)?,
                    }
                    let _ = i;
                }
                Ok(())
            };
            let r = match no_panic(&mut run) {
                Ok(r) => r.err(),
                Err(m) => Some((
                    Case {
                        piece: "panic",
                        sq: 0,
                        occ: 0,
                        white: true,
                    },
                    format!("panic during the one-generator stress: {}", m),
                )),
            };
            // keep only a bounded number of fingerprints in memory
            st.nontrivial.shrink_to_fit();
            (st, r)
        })
        .collect();
    let mut v = None;
    for (st, r) in results {
        agg.merge(st);
        if v.is_none() {
            if let Some((c, msg)) = r {
                v = Some(violation(
                    name,
                    case_json(&c),
                    Failure::new(format!("{} (asked of a generator that had answered many other boards before)", msg)),
                ));
            }
        }
    }
    agg.count("boards_per_long_lived_generator", per_generator);
    v
}

pub fn checks() -> Vec<Box<dyn DynCheck>> {
    vec![
        Box::new(FnCheck {
            name: "C11/one-generator-stress",
            run: run_stress,
            replay: replay_case,
        }),
        Box::new(FnCheck {
            name: "C11/compiled-tables",
            run: run_compiled,
            replay: replay_case,
        }),
        Box::new(FnCheck {
            name: "C11/magic-draws",
            run: run_draws,
            replay: |_| Err("random draw of the build script: re-run the check".into()),
        }),
    ]
}
