//! Seeded proptest runner shards, counters, shrinking, replay files, evidence.

use proptest::strategy::{BoxedStrategy, Strategy};
use proptest::test_runner::{Config, RngAlgorithm, TestCaseError, TestError, TestRng, TestRunner};
use serde::de::DeserializeOwned;
use serde::Serialize;
use serde_json::{json, Value};
use std::cell::{Cell, RefCell};
use std::collections::{BTreeMap, BTreeSet, HashSet};
use std::fmt::Debug;
use std::panic::{catch_unwind, AssertUnwindSafe};
use std::sync::Mutex;

#[derive(Clone, Copy, PartialEq, Eq, Debug)]
pub enum Tier {
    Quick,
    Thorough,
}

impl Tier {
    pub fn name(self) -> &'static str {
        match self {
            Tier::Quick => "quick",
            Tier::Thorough => "thorough",
        }
    }
    pub fn pick<T>(self, quick: T, thorough: T) -> T {
        match self {
            Tier::Quick => quick,
            Tier::Thorough => thorough,
        }
    }
}

#[derive(Clone, Debug)]
pub struct Env {
    pub tier: Tier,
    pub seed: u64,
    /// multiplies case counts (for experiments; 1.0 in registered commands)
    pub scale: f64,
}

#[derive(Clone, Debug)]
pub struct Failure {
    pub msg: String,
    pub detail: Value,
    /// stable identifier of the kind of failure, matched against open known findings
    pub signature: String,
}

impl Failure {
    pub fn new(msg: impl Into<String>) -> Failure {
        Failure {
            msg: msg.into(),
            detail: Value::Null,
            signature: String::new(),
        }
    }
    pub fn with(mut self, detail: Value) -> Failure {
        self.detail = detail;
        self
    }
    pub fn sig(mut self, s: impl Into<String>) -> Failure {
        self.signature = s.into();
        self
    }
}

pub type TestResult = Result<(), Failure>;

#[macro_export]
macro_rules! ensure {
    ($cond:expr, $($arg:tt)*) => {
        if !($cond) {
            return Err($crate::runner::Failure::new(format!($($arg)*)));
        }
    };
}

#[derive(Default, Clone, Debug)]
pub struct Stats {
    pub evaluations: u64,
    pub labels: BTreeMap<String, u64>,
    pub nontrivial: HashSet<u64>,
    pub samples: Vec<Value>,
    pub excused: BTreeMap<String, u64>,
    pub counters: BTreeMap<String, u64>,
    /// set when a finite space was enumerated completely (describes the space)
    pub exhaustive: Option<String>,
}

pub const MAX_SAMPLES: usize = 6;

impl Stats {
    pub fn eval(&mut self) {
        self.evaluations += 1;
    }
    pub fn label(&mut self, l: &str) {
        *self.labels.entry(l.to_string()).or_insert(0) += 1;
    }
    pub fn count(&mut self, k: &str, n: u64) {
        *self.counters.entry(k.to_string()).or_insert(0) += n;
    }
    /// Record a non-trivial case by fingerprint; keeps the first few as samples.
    pub fn nontrivial<F: FnOnce() -> Value>(&mut self, fp: u64, sample: F) {
        // memory bound: beyond 4M distinct fingerprints per shard the count is conservative
        if self.nontrivial.len() >= 4_000_000 {
            return;
        }
        if self.nontrivial.insert(fp) && self.samples.len() < MAX_SAMPLES {
            self.samples.push(sample());
        }
    }
    pub fn merge(&mut self, o: Stats) {
        self.evaluations += o.evaluations;
        for (k, v) in o.labels {
            *self.labels.entry(k).or_insert(0) += v;
        }
        for (k, v) in o.counters {
            *self.counters.entry(k).or_insert(0) += v;
        }
        for (k, v) in o.excused {
            *self.excused.entry(k).or_insert(0) += v;
        }
        self.nontrivial.extend(o.nontrivial);
        if o.exhaustive.is_some() {
            self.exhaustive = o.exhaustive;
        }
        for s in o.samples {
            if self.samples.len() < MAX_SAMPLES {
                self.samples.push(s);
            }
        }
    }
}

pub fn fnv(bytes: &[u8]) -> u64 {
    let mut h: u64 = 0xcbf29ce484222325;
    for b in bytes {
        h ^= *b as u64;
        h = h.wrapping_mul(0x100000001b3);
    }
    h ^ (h >> 31)
}

pub fn fp_of<T: Debug>(x: &T) -> u64 {
    fnv(format!("{:?}", x).as_bytes())
}

fn splitmix(x: &mut u64) -> u64 {
    *x = x.wrapping_add(0x9E3779B97F4A7C15);
    let mut z = *x;
    z = (z ^ (z >> 30)).wrapping_mul(0xBF58476D1CE4E5B9);
    z = (z ^ (z >> 27)).wrapping_mul(0x94D049BB133111EB);
    z ^ (z >> 31)
}

pub fn derive_seed(seed: u64, name: &str, shard: u64) -> [u8; 32] {
    let mut s = seed ^ fnv(name.as_bytes()).rotate_left(17) ^ shard.wrapping_mul(0xA24BAED4963EE407);
    let mut out = [0u8; 32];
    for i in 0..4 {
        out[i * 8..i * 8 + 8].copy_from_slice(&splitmix(&mut s).to_le_bytes());
    }
    out
}

// ------------------------------------------------------------------ panics

thread_local! {
    static LAST_PANIC: RefCell<Option<String>> = RefCell::new(None);
}
// panics on other threads (rayon workers inside the engine) are remembered here
static LAST_PANIC_ANYWHERE: Mutex<Option<String>> = Mutex::new(None);
static CATCHING: std::sync::atomic::AtomicUsize = std::sync::atomic::AtomicUsize::new(0);

pub fn install_quiet_panic_hook() {
    std::panic::set_hook(Box::new(|info| {
        let msg = if let Some(s) = info.payload().downcast_ref::<&str>() {
            s.to_string()
        } else if let Some(s) = info.payload().downcast_ref::<String>() {
            s.clone()
        } else {
            "panic".to_string()
        };
        let loc = info
            .location()
            .map(|l| format!(" at {}:{}", l.file(), l.line()))
            .unwrap_or_default();
        LAST_PANIC.with(|p| *p.borrow_mut() = Some(format!("{}{}", msg, loc)));
        if let Ok(mut g) = LAST_PANIC_ANYWHERE.lock() {
            *g = Some(format!("{}{}", msg, loc));
        }
        if CATCHING.load(std::sync::atomic::Ordering::SeqCst) == 0 {
            eprintln!("harness panic (not inside a guarded engine call): {}{}", msg, loc);
        }
    }));
}

/// Run `f`, turning a panic into Err(message).
pub fn no_panic<T, F: FnOnce() -> T>(f: F) -> Result<T, String> {
    CATCHING.fetch_add(1, std::sync::atomic::Ordering::SeqCst);
    let r = catch_unwind(AssertUnwindSafe(f));
    CATCHING.fetch_sub(1, std::sync::atomic::Ordering::SeqCst);
    match r {
        Ok(v) => Ok(v),
        Err(_) => Err(LAST_PANIC
            .with(|p| p.borrow_mut().take())
            .or_else(|| LAST_PANIC_ANYWHERE.lock().ok().and_then(|mut g| g.take()))
            .unwrap_or_else(|| "panic (no message)".into())),
    }
}

// ------------------------------------------------------------------ known findings

#[derive(Clone, Debug)]
pub struct KnownFinding {
    pub property: String,
    pub status: String,
    pub signature: String,
    pub what: String,
}

pub fn load_known_findings() -> Vec<KnownFinding> {
    let path = "/verif/known_findings.json";
    let text = match std::fs::read_to_string(path) {
        Ok(t) => t,
        Err(_) => return vec![],
    };
    let v: Value = serde_json::from_str(&text).expect("known_findings.json must be valid JSON");
    v["findings"]
        .as_array()
        .map(|a| {
            a.iter()
                .map(|e| KnownFinding {
                    property: e["property"].as_str().unwrap_or("").to_string(),
                    status: e["status"].as_str().unwrap_or("").to_string(),
                    signature: e["signature"].as_str().unwrap_or("").to_string(),
                    what: e["what"].as_str().unwrap_or("").to_string(),
                })
                .collect()
        })
        .unwrap_or_default()
}

// ------------------------------------------------------------------ properties

pub struct Violation {
    pub check: String,
    pub msg: String,
    pub case: Value,
    pub detail: Value,
}

pub trait Prop: Sync {
    type Case: Clone + Debug + Serialize + DeserializeOwned + Send + 'static;
    fn name(&self) -> &'static str;
    fn strategy(&self, tier: Tier) -> BoxedStrategy<Self::Case>;
    /// total number of cases over all shards
    fn cases(&self, tier: Tier) -> u32;
    fn shards(&self) -> usize {
        16
    }
    /// bound on shrinking work (each iteration re-runs the case)
    fn max_shrink_iters(&self) -> u32 {
        4000
    }
    fn test(&self, case: &Self::Case, st: &mut Stats) -> TestResult;
}

/// Object-safe face of a check.
pub trait DynCheck: Sync {
    fn name(&self) -> &'static str;
    fn run(&self, env: &Env, agg: &mut Stats) -> Option<Violation>;
    fn replay(&self, case: &Value) -> Result<TestResult, String>;
}

fn guarded_test<P: Prop>(p: &P, case: &P::Case, st: &mut Stats) -> TestResult {
    match no_panic(|| p.test(case, st)) {
        Ok(r) => r,
        Err(msg) => Err(Failure::new(format!("panic: {}", msg)).sig("panic")),
    }
}

pub struct OpenFindings(pub Vec<KnownFinding>);

static OPEN: Mutex<Vec<KnownFinding>> = Mutex::new(Vec::new());
static ANNOUNCED: Mutex<BTreeSet<String>> = Mutex::new(BTreeSet::new());

pub fn set_open_findings(property: &str) {
    let all = load_known_findings();
    *OPEN.lock().unwrap() = all
        .into_iter()
        .filter(|k| k.property == property && k.status == "open")
        .collect();
}

/// If the failure matches an open known finding it is excused (counted), not reported.
fn excuse(f: &Failure, st: &mut Stats) -> bool {
    if f.signature.is_empty() {
        return false;
    }
    let open = OPEN.lock().unwrap();
    if let Some(k) = open.iter().find(|k| k.signature == f.signature) {
        *st.excused.entry(k.signature.clone()).or_insert(0) += 1;
        let mut ann = ANNOUNCED.lock().unwrap();
        if ann.insert(k.signature.clone()) {
            println!("KNOWN-FINDING: property={} {}", k.property, k.what);
        }
        true
    } else {
        false
    }
}

impl<P: Prop> DynCheck for P {
    fn name(&self) -> &'static str {
        Prop::name(self)
    }

    fn run(&self, env: &Env, agg: &mut Stats) -> Option<Violation> {
        let shards = self.shards().max(1);
        let total = ((self.cases(env.tier) as f64) * env.scale).ceil().max(1.0) as u32;
        let per = (total + shards as u32 - 1) / shards as u32;
        let results: Vec<(Stats, Option<(String, P::Case)>)> = std::thread::scope(|scope| {
            let handles: Vec<_> = (0..shards)
                .map(|shard| {
                    let env = env.clone();
                    scope.spawn(move || {
                        let config = Config {
                            cases: per,
                            failure_persistence: None,
                            max_shrink_iters: self.max_shrink_iters(),
                            max_global_rejects: 1_000_000,
                            max_local_rejects: 1_000_000,
                            ..Config::default()
                        };
                        let rng = TestRng::from_seed(
                            RngAlgorithm::ChaCha,
                            &derive_seed(env.seed, Prop::name(self), shard as u64),
                        );
                        let mut runner = TestRunner::new_with_rng(config, rng);
                        let stats = RefCell::new(Stats::default());
                        let failed = Cell::new(false);
                        let strategy = self.strategy(env.tier);
                        let result = runner.run(&strategy, |case| {
                            if failed.get() {
                                // shrinking: do not count
                                let mut scratch = Stats::default();
                                return match guarded_test(self, &case, &mut scratch) {
                                    Ok(()) => Ok(()),
                                    Err(f) => {
                                        if excuse(&f, &mut scratch) {
                                            Ok(())
                                        } else {
                                            Err(TestCaseError::fail(f.msg))
                                        }
                                    }
                                };
                            }
                            let mut st = stats.borrow_mut();
                            st.eval();
                            match guarded_test(self, &case, &mut st) {
                                Ok(()) => Ok(()),
                                Err(f) => {
                                    if excuse(&f, &mut st) {
                                        Ok(())
                                    } else {
                                        failed.set(true);
                                        Err(TestCaseError::fail(f.msg))
                                    }
                                }
                            }
                        });
                        let failure = match result {
                            Ok(()) => None,
                            Err(TestError::Fail(reason, value)) => Some((reason.to_string(), value)),
                            Err(TestError::Abort(reason)) => {
                                eprintln!("proptest aborted in {}: {}", Prop::name(self), reason);
                                std::process::exit(2);
                            }
                        };
                        (stats.into_inner(), failure)
                    })
                })
                .collect();
            handles.into_iter().map(|h| h.join().expect("shard thread")).collect()
        });
        let mut violation = None;
        for (st, failure) in results {
            agg.merge(st);
            if violation.is_none() {
                if let Some((reason, case)) = failure {
                    // re-run the minimal case to obtain the structured detail
                    let mut scratch = Stats::default();
                    let (msg, detail) = match guarded_test(self, &case, &mut scratch) {
                        Err(f) => (f.msg, f.detail),
                        Ok(()) => (format!("{} (did not reproduce on re-run)", reason), Value::Null),
                    };
                    violation = Some(Violation {
                        check: Prop::name(self).to_string(),
                        msg,
                        case: serde_json::to_value(&case).unwrap_or(Value::Null),
                        detail,
                    });
                }
            }
        }
        violation
    }

    fn replay(&self, case: &Value) -> Result<TestResult, String> {
        let case: P::Case = serde_json::from_value(case.clone()).map_err(|e| e.to_string())?;
        let mut st = Stats::default();
        Ok(guarded_test(self, &case, &mut st))
    }
}

// ------------------------------------------------------------------ files

/// Output root: /verif, or $VERIF_OUT for background sweeps that must not touch the
/// committed evidence (the registered commands never set it).
pub fn out_root() -> String {
    std::env::var("VERIF_OUT").unwrap_or_else(|_| "/verif".to_string())
}

pub fn write_replay(property: &str, v: &Violation, env: &Env) -> String {
    let dir = format!("{}/replays/found", out_root());
    let dir = dir.as_str();
    let _ = std::fs::create_dir_all(dir);
    let body = json!({
        "property": property,
        "check": v.check,
        "case": v.case,
        "message": v.msg,
        "detail": v.detail,
        "tier": env.tier.name(),
        "seed": env.seed,
    });
    let text = serde_json::to_string_pretty(&body).unwrap();
    let path = format!("{}/{}-{:016x}.json", dir, property, fnv(v.case.to_string().as_bytes()));
    std::fs::write(&path, text).expect("write replay file");
    path
}

#[allow(clippy::too_many_arguments)]
pub fn write_evidence(
    property: &str,
    env: &Env,
    stats: &Stats,
    rule: &str,
    assumptions: &[&str],
    wall_s: f64,
    violations: u64,
    extra: Value,
) {
    let mut coverage = json!({
        "evaluations": stats.evaluations,
        "distinct_nontrivial": stats.nontrivial.len(),
        "rule": rule,
        "samples": stats.samples,
        "labels": stats.labels,
        "counters": stats.counters,
        "excluded_by_known_finding": stats.excused,
    });
    if let Some(space) = &stats.exhaustive {
        coverage["exhaustive"] = json!(true);
        coverage["exhaustive_space"] = json!(space);
    }
    if let (Some(c), Some(e)) = (coverage.as_object_mut(), extra.as_object()) {
        for (k, v) in e {
            c.insert(k.clone(), v.clone());
        }
    }
    let body = json!({
        "property_id": property,
        "tier": env.tier.name(),
        "seed": env.seed,
        "level": "exploration",
        "coverage": coverage,
        "assumptions": assumptions,
        "wall_s": wall_s,
        "violations": violations,
    });
    let _ = std::fs::create_dir_all(format!("{}/evidence", out_root()));
    std::fs::write(
        format!("{}/evidence/{}.json", out_root(), property),
        serde_json::to_string_pretty(&body).unwrap(),
    )
    .expect("write evidence");
}

/// Convenience for boxed strategies.
pub fn boxed<S: Strategy + 'static>(s: S) -> BoxedStrategy<S::Value> {
    s.boxed()
}
