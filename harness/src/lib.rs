//! Property-based testing / fuzzing harness for codyjk/chess (see /verif/DESIGN.md).
pub mod bridge;
pub mod checks;
pub mod fuzz;
pub mod gen;
pub mod history;
pub mod oracle;
pub mod runner;
pub mod sched;
