//! Byte-level entry point shared by the libFuzzer target and by `verif --replay <crash file>`.
//! No MoveGenerator is involved: moves come from the oracle's legal list and are built through
//! the public constructors, so the target runs at >10^4 executions per second.

use crate::gen;
use crate::history::{run_history, History, Op, Which};
use crate::oracle::STANDARD;
use crate::runner::{Failure, Stats};
use arbitrary::Unstructured;

pub fn seeds() -> Vec<String> {
    let mut v: Vec<String> = STANDARD.iter().map(|s| s.1.to_string()).collect();
    v.extend(gen::EXTRA_SEEDS.iter().map(|s| s.to_string()));
    v.extend(crate::checks::pos::C02_TREE_SEEDS.iter().map(|s| s.to_string()));
    v
}

pub fn decode(data: &[u8]) -> Option<History> {
    let mut u = Unstructured::new(data);
    let sel: u8 = u.arbitrary().ok()?;
    let all = seeds();
    let fen = if (sel as usize) < all.len() * 4 {
        all[sel as usize % all.len()].clone()
    } else {
        // generated placement, repaired constructively
        let wk: u8 = u.arbitrary().ok()?;
        let bk: u8 = u.arbitrary().ok()?;
        let n: u8 = u.arbitrary().ok()?;
        let mut items = Vec::new();
        for _ in 0..(n % 24) {
            let s: u8 = u.arbitrary().ok()?;
            let p: u8 = u.arbitrary().ok()?;
            items.push((s % 64, p % 5, p & 0x80 != 0));
        }
        let flags: u8 = u.arbitrary().ok()?;
        let raw = gen::RawPos {
            wk: wk % 64,
            bk: bk % 64,
            items,
            white_to_move: flags & 1 != 0,
            rights: (flags >> 1) & 15,
            ep_file: if flags & 0x20 != 0 { Some(flags >> 6) } else { None },
            half: 0,
        };
        gen::build(&raw).fen()
    };
    let mut ops = Vec::new();
    while !u.is_empty() && ops.len() < 600 {
        let k: u8 = match u.arbitrary() {
            Ok(k) => k,
            Err(_) => break,
        };
        let s: u16 = u.arbitrary().unwrap_or(0);
        ops.push(match k % 16 {
            0..=5 => Op::Move(s),
            6..=8 => Op::Quiet(s),
            9 => Op::Noisy(s),
            10..=12 => Op::Special(s),
            13 => Op::Undo,
            14 => {
                if s & 7 == 0 {
                    Op::CloneBoard
                } else {
                    Op::Undo
                }
            }
            _ => Op::Unwind((s % 40) as u8 + 1),
        });
    }
    Some(History { fen, ops })
}

pub fn which_for(property: &str) -> Which {
    match property {
        "C03" => Which {
            successor: true,
            ..Which::default()
        },
        "C04" => Which {
            undo: true,
            register: true,
            ..Which::default()
        },
        "C05" => Which {
            key: true,
            ..Which::default()
        },
        "C12" => Which {
            invariants: true,
            ..Which::default()
        },
        "C16" => Which {
            clocks: true,
            ..Which::default()
        },
        _ => Which {
            successor: true,
            undo: true,
            key: true,
            invariants: true,
            clocks: true,
            register: true,
            ..Which::default()
        },
    }
}

pub fn check(data: &[u8], property: &str) -> Result<(), Failure> {
    let h = match decode(data) {
        Some(h) => h,
        None => return Ok(()),
    };
    let mut st = Stats::default();
    run_history(&h, which_for(property), &mut st).map(|_| ())
}

/// libFuzzer entry: a violation is a crash.
pub fn run(data: &[u8]) {
    use std::sync::OnceLock;
    static PROP: OnceLock<String> = OnceLock::new();
    let p = PROP.get_or_init(|| std::env::var("VERIF_FUZZ_PROPERTY").unwrap_or_default());
    if let Err(f) = check(data, p) {
        panic!("VIOLATION {}: {}", p, f.msg);
    }
}
