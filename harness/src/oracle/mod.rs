//! Independent reference implementation of the rules of chess (mailbox, ray walking).
//! Shares no code with the engine under test. Square index = rank * 8 + file, a1 = 0.

pub mod notation;

use serde::{Deserialize, Serialize};

#[derive(Clone, Copy, PartialEq, Eq, Hash, Debug, PartialOrd, Ord, Serialize, Deserialize)]
pub enum P {
    Pawn,
    Knight,
    Bishop,
    Rook,
    Queen,
    King,
}

pub const ALL_P: [P; 6] = [P::Pawn, P::Knight, P::Bishop, P::Rook, P::Queen, P::King];
pub const PROMO_P: [P; 4] = [P::Queen, P::Rook, P::Bishop, P::Knight];

#[derive(Clone, Copy, PartialEq, Eq, Hash, Debug, PartialOrd, Ord, Serialize, Deserialize)]
pub enum Side {
    White,
    Black,
}

impl Side {
    pub fn other(self) -> Side {
        match self {
            Side::White => Side::Black,
            Side::Black => Side::White,
        }
    }
}

// Castling-right bits (the numeric values are the harness's own; the bridge maps them).
pub const WK: u8 = 0b1000;
pub const BK: u8 = 0b0100;
pub const WQ: u8 = 0b0010;
pub const BQ: u8 = 0b0001;

pub fn file_of(sq: u8) -> i8 {
    (sq % 8) as i8
}
pub fn rank_of(sq: u8) -> i8 {
    (sq / 8) as i8
}
pub fn sq_of(file: i8, rank: i8) -> Option<u8> {
    if (0..8).contains(&file) && (0..8).contains(&rank) {
        Some((rank * 8 + file) as u8)
    } else {
        None
    }
}
pub fn sq_name(sq: u8) -> String {
    format!("{}{}", (b'a' + sq % 8) as char, (b'1' + sq / 8) as char)
}
pub fn parse_sq(s: &str) -> Option<u8> {
    let b = s.as_bytes();
    if b.len() != 2 || !(b'a'..=b'h').contains(&b[0]) || !(b'1'..=b'8').contains(&b[1]) {
        return None;
    }
    Some((b[1] - b'1') * 8 + (b[0] - b'a'))
}

pub const A1: u8 = 0;
pub const C1: u8 = 2;
pub const D1: u8 = 3;
pub const E1: u8 = 4;
pub const F1: u8 = 5;
pub const G1: u8 = 6;
pub const H1: u8 = 7;
pub const A8: u8 = 56;
pub const C8: u8 = 58;
pub const D8: u8 = 59;
pub const E8: u8 = 60;
pub const F8: u8 = 61;
pub const G8: u8 = 62;
pub const H8: u8 = 63;

#[derive(Clone, Copy, PartialEq, Eq, Hash, Debug, PartialOrd, Ord, Serialize, Deserialize)]
pub enum Kind {
    Std,
    Promo,
    Ep,
    Castle,
}

/// A move as a semantic tuple. `cap` is the kind of piece that disappears (pawn for e.p.).
#[derive(Clone, Copy, PartialEq, Eq, Hash, Debug, PartialOrd, Ord, Serialize, Deserialize)]
pub struct Mv {
    pub kind: Kind,
    pub from: u8,
    pub to: u8,
    pub promo: Option<P>,
    pub cap: Option<P>,
}

#[derive(Clone, PartialEq, Eq, Hash, Debug)]
pub struct Pos {
    pub sq: [Option<(P, Side)>; 64],
    pub side: Side,
    pub rights: u8,
    pub ep: Option<u8>,
    /// plies since the last capture or pawn move
    pub half: u32,
    /// plies made since the position was set up
    pub ply: u32,
}

const KNIGHT_D: [(i8, i8); 8] = [
    (1, 2),
    (2, 1),
    (2, -1),
    (1, -2),
    (-1, -2),
    (-2, -1),
    (-2, 1),
    (-1, 2),
];
const KING_D: [(i8, i8); 8] = [
    (1, 0),
    (1, 1),
    (0, 1),
    (-1, 1),
    (-1, 0),
    (-1, -1),
    (0, -1),
    (1, -1),
];
const ROOK_D: [(i8, i8); 4] = [(1, 0), (0, 1), (-1, 0), (0, -1)];
const BISHOP_D: [(i8, i8); 4] = [(1, 1), (-1, 1), (-1, -1), (1, -1)];

impl Pos {
    pub fn empty() -> Pos {
        Pos {
            sq: [None; 64],
            side: Side::White,
            rights: 0,
            ep: None,
            half: 0,
            ply: 0,
        }
    }

    pub fn start() -> Pos {
        Pos::from_fen("rnbqkbnr/pppppppp/8/8/8/8/PPPPPPPP/RNBQKBNR w KQkq - 0 1").unwrap()
    }

    pub fn king_sq(&self, side: Side) -> Option<u8> {
        (0..64u8).find(|&s| self.sq[s as usize] == Some((P::King, side)))
    }

    pub fn count(&self, p: P, side: Side) -> usize {
        self.sq.iter().filter(|x| **x == Some((p, side))).count()
    }

    pub fn men(&self) -> usize {
        self.sq.iter().filter(|x| x.is_some()).count()
    }

    /// Is `target` attacked by any piece of `by`? Walks outward from the target square.
    pub fn attacked(&self, target: u8, by: Side) -> bool {
        let f = file_of(target);
        let r = rank_of(target);
        // pawns: a white pawn on (f±1, r-1) attacks (f, r)
        let pr = match by {
            Side::White => r - 1,
            Side::Black => r + 1,
        };
        for df in [-1, 1] {
            if let Some(s) = sq_of(f + df, pr) {
                if self.sq[s as usize] == Some((P::Pawn, by)) {
                    return true;
                }
            }
        }
        for (df, dr) in KNIGHT_D {
            if let Some(s) = sq_of(f + df, r + dr) {
                if self.sq[s as usize] == Some((P::Knight, by)) {
                    return true;
                }
            }
        }
        for (df, dr) in KING_D {
            if let Some(s) = sq_of(f + df, r + dr) {
                if self.sq[s as usize] == Some((P::King, by)) {
                    return true;
                }
            }
        }
        for (dirs, slider) in [(ROOK_D, P::Rook), (BISHOP_D, P::Bishop)] {
            for (df, dr) in dirs {
                let (mut cf, mut cr) = (f + df, r + dr);
                while let Some(s) = sq_of(cf, cr) {
                    if let Some((p, c)) = self.sq[s as usize] {
                        if c == by && (p == slider || p == P::Queen) {
                            return true;
                        }
                        break;
                    }
                    cf += df;
                    cr += dr;
                }
            }
        }
        false
    }

    /// Number of enemy pieces giving check to `side`'s king (0 if there is no king).
    pub fn checkers(&self, side: Side) -> usize {
        let k = match self.king_sq(side) {
            Some(k) => k,
            None => return 0,
        };
        let by = side.other();
        let mut n = 0;
        for s in 0..64u8 {
            if let Some((p, c)) = self.sq[s as usize] {
                if c == by && self.piece_attacks(s, p, c, k) {
                    n += 1;
                }
            }
        }
        n
    }

    /// Does the piece `p` of colour `c` standing on `from` attack `target`?
    pub fn piece_attacks(&self, from: u8, p: P, c: Side, target: u8) -> bool {
        let df = file_of(target) - file_of(from);
        let dr = rank_of(target) - rank_of(from);
        match p {
            P::Pawn => {
                let fwd = if c == Side::White { 1 } else { -1 };
                dr == fwd && df.abs() == 1
            }
            P::Knight => (df.abs() == 1 && dr.abs() == 2) || (df.abs() == 2 && dr.abs() == 1),
            P::King => df.abs() <= 1 && dr.abs() <= 1 && (df != 0 || dr != 0),
            P::Rook | P::Bishop | P::Queen => {
                let straight = (df == 0) != (dr == 0);
                let diagonal = df != 0 && df.abs() == dr.abs();
                let ok = match p {
                    P::Rook => straight,
                    P::Bishop => diagonal,
                    _ => straight || diagonal,
                };
                if !ok {
                    return false;
                }
                let (sf, sr) = (df.signum(), dr.signum());
                let (mut cf, mut cr) = (file_of(from) + sf, rank_of(from) + sr);
                while let Some(s) = sq_of(cf, cr) {
                    if s == target {
                        return true;
                    }
                    if self.sq[s as usize].is_some() {
                        return false;
                    }
                    cf += sf;
                    cr += sr;
                }
                false
            }
        }
    }

    pub fn in_check(&self, side: Side) -> bool {
        match self.king_sq(side) {
            Some(k) => self.attacked(k, side.other()),
            None => false,
        }
    }

    /// Set of squares attacked by `by` (pieces' own squares count when defended).
    pub fn attack_map(&self, by: Side) -> u64 {
        let mut m = 0u64;
        for s in 0..64u8 {
            if self.attacked(s, by) {
                m |= 1u64 << s;
            }
        }
        m
    }

    fn push_pawn_move(&self, out: &mut Vec<Mv>, from: u8, to: u8, cap: Option<P>, side: Side) {
        let last = if side == Side::White { 7 } else { 0 };
        if rank_of(to) == last {
            for pp in PROMO_P {
                out.push(Mv {
                    kind: Kind::Promo,
                    from,
                    to,
                    promo: Some(pp),
                    cap,
                });
            }
        } else {
            out.push(Mv {
                kind: Kind::Std,
                from,
                to,
                promo: None,
                cap,
            });
        }
    }

    /// Pseudo-legal moves of `side` (castling already fully checked, other moves may leave
    /// the king in check).
    pub fn pseudo_moves(&self, side: Side) -> Vec<Mv> {
        let mut out = Vec::with_capacity(48);
        for from in 0..64u8 {
            let (p, c) = match self.sq[from as usize] {
                Some(x) => x,
                None => continue,
            };
            if c != side {
                continue;
            }
            let f = file_of(from);
            let r = rank_of(from);
            match p {
                P::Pawn => {
                    let fwd: i8 = if side == Side::White { 1 } else { -1 };
                    let home = if side == Side::White { 1 } else { 6 };
                    if let Some(one) = sq_of(f, r + fwd) {
                        if self.sq[one as usize].is_none() {
                            self.push_pawn_move(&mut out, from, one, None, side);
                            if r == home {
                                if let Some(two) = sq_of(f, r + 2 * fwd) {
                                    if self.sq[two as usize].is_none() {
                                        out.push(Mv {
                                            kind: Kind::Std,
                                            from,
                                            to: two,
                                            promo: None,
                                            cap: None,
                                        });
                                    }
                                }
                            }
                        }
                    }
                    for df in [-1, 1] {
                        if let Some(to) = sq_of(f + df, r + fwd) {
                            match self.sq[to as usize] {
                                Some((cp, cc)) if cc != side => {
                                    self.push_pawn_move(&mut out, from, to, Some(cp), side);
                                }
                                None if self.ep == Some(to) => {
                                    // only to the recorded target, and only if the pawn that
                                    // would be captured is really there
                                    let victim = sq_of(f + df, r).unwrap();
                                    if self.sq[victim as usize] == Some((P::Pawn, side.other())) {
                                        out.push(Mv {
                                            kind: Kind::Ep,
                                            from,
                                            to,
                                            promo: None,
                                            cap: Some(P::Pawn),
                                        });
                                    }
                                }
                                _ => {}
                            }
                        }
                    }
                }
                P::Knight | P::King => {
                    let ds = if p == P::Knight { KNIGHT_D } else { KING_D };
                    for (df, dr) in ds {
                        if let Some(to) = sq_of(f + df, r + dr) {
                            match self.sq[to as usize] {
                                Some((_, cc)) if cc == side => {}
                                x => out.push(Mv {
                                    kind: Kind::Std,
                                    from,
                                    to,
                                    promo: None,
                                    cap: x.map(|y| y.0),
                                }),
                            }
                        }
                    }
                }
                P::Rook | P::Bishop | P::Queen => {
                    let mut dirs: Vec<(i8, i8)> = Vec::new();
                    if p != P::Bishop {
                        dirs.extend(ROOK_D);
                    }
                    if p != P::Rook {
                        dirs.extend(BISHOP_D);
                    }
                    for (df, dr) in dirs {
                        let (mut cf, mut cr) = (f + df, r + dr);
                        while let Some(to) = sq_of(cf, cr) {
                            match self.sq[to as usize] {
                                None => out.push(Mv {
                                    kind: Kind::Std,
                                    from,
                                    to,
                                    promo: None,
                                    cap: None,
                                }),
                                Some((cp, cc)) => {
                                    if cc != side {
                                        out.push(Mv {
                                            kind: Kind::Std,
                                            from,
                                            to,
                                            promo: None,
                                            cap: Some(cp),
                                        });
                                    }
                                    break;
                                }
                            }
                            cf += df;
                            cr += dr;
                        }
                    }
                }
            }
        }
        // castling (FIDE 3.8.2)
        let (ksq, kbit, qbit, rk, rq) = match side {
            Side::White => (E1, WK, WQ, H1, A1),
            Side::Black => (E8, BK, BQ, H8, A8),
        };
        let enemy = side.other();
        if self.sq[ksq as usize] == Some((P::King, side)) && !self.attacked(ksq, enemy) {
            if self.rights & kbit != 0
                && self.sq[rk as usize] == Some((P::Rook, side))
                && self.sq[(ksq + 1) as usize].is_none()
                && self.sq[(ksq + 2) as usize].is_none()
                && !self.attacked(ksq + 1, enemy)
                && !self.attacked(ksq + 2, enemy)
            {
                out.push(Mv {
                    kind: Kind::Castle,
                    from: ksq,
                    to: ksq + 2,
                    promo: None,
                    cap: None,
                });
            }
            if self.rights & qbit != 0
                && self.sq[rq as usize] == Some((P::Rook, side))
                && self.sq[(ksq - 1) as usize].is_none()
                && self.sq[(ksq - 2) as usize].is_none()
                && self.sq[(ksq - 3) as usize].is_none()
                && !self.attacked(ksq - 1, enemy)
                && !self.attacked(ksq - 2, enemy)
            {
                out.push(Mv {
                    kind: Kind::Castle,
                    from: ksq,
                    to: ksq - 2,
                    promo: None,
                    cap: None,
                });
            }
        }
        out
    }

    /// Placement after the move, nothing else updated. Used for legality filtering.
    fn place(&self, m: &Mv, side: Side) -> [Option<(P, Side)>; 64] {
        let mut sq = self.sq;
        let moving = sq[m.from as usize].take();
        match m.kind {
            Kind::Std => sq[m.to as usize] = moving,
            Kind::Promo => sq[m.to as usize] = Some((m.promo.unwrap(), side)),
            Kind::Ep => {
                sq[m.to as usize] = moving;
                let victim = sq_of(file_of(m.to), rank_of(m.from)).unwrap();
                sq[victim as usize] = None;
            }
            Kind::Castle => {
                sq[m.to as usize] = moving;
                let (rf, rt) = if m.to > m.from {
                    (m.from + 3, m.from + 1)
                } else {
                    (m.from - 4, m.from - 1)
                };
                sq[rt as usize] = sq[rf as usize].take();
            }
        }
        sq
    }

    /// Is `m` (pseudo-legal for `side`) legal, i.e. does it leave `side`'s king unattacked?
    /// Works on a scratch copy that is restored before returning.
    fn leaves_king_safe(scratch: &mut Pos, m: &Mv, side: Side, king: Option<u8>) -> bool {
        let from = m.from as usize;
        let to = m.to as usize;
        let saved_from = scratch.sq[from];
        let saved_to = scratch.sq[to];
        let mut extra: [(usize, Option<(P, Side)>); 2] = [(64, None), (64, None)];
        let moving = scratch.sq[from].take();
        match m.kind {
            Kind::Std => scratch.sq[to] = moving,
            Kind::Promo => scratch.sq[to] = Some((m.promo.unwrap(), side)),
            Kind::Ep => {
                scratch.sq[to] = moving;
                let victim = sq_of(file_of(m.to), rank_of(m.from)).unwrap() as usize;
                extra[0] = (victim, scratch.sq[victim]);
                scratch.sq[victim] = None;
            }
            Kind::Castle => {
                scratch.sq[to] = moving;
                let (rf, rt) = if m.to > m.from {
                    (m.from + 3, m.from + 1)
                } else {
                    (m.from - 4, m.from - 1)
                };
                extra[0] = (rf as usize, scratch.sq[rf as usize]);
                extra[1] = (rt as usize, scratch.sq[rt as usize]);
                scratch.sq[rt as usize] = scratch.sq[rf as usize].take();
            }
        }
        let k = match moving {
            Some((P::King, _)) => Some(m.to),
            _ => king,
        };
        let safe = match k {
            Some(k) => !scratch.attacked(k, side.other()),
            None => true,
        };
        scratch.sq[from] = saved_from;
        scratch.sq[to] = saved_to;
        for (i, v) in extra {
            if i < 64 {
                scratch.sq[i] = v;
            }
        }
        safe
    }

    /// Does `side` have at least one legal move? (early exit)
    pub fn has_legal_move(&self, side: Side) -> bool {
        let mut scratch = self.clone();
        let king = self.king_sq(side);
        for m in self.pseudo_moves(side) {
            if Pos::leaves_king_safe(&mut scratch, &m, side, king) {
                return true;
            }
        }
        false
    }

    pub fn legal_moves_for(&self, side: Side) -> Vec<Mv> {
        let mut out = Vec::new();
        let mut scratch = self.clone();
        let king = self.king_sq(side);
        for m in self.pseudo_moves(side) {
            if Pos::leaves_king_safe(&mut scratch, &m, side, king) {
                out.push(m);
            }
        }
        debug_assert!(scratch.sq == self.sq);
        out.sort();
        out
    }

    pub fn legal_moves(&self) -> Vec<Mv> {
        self.legal_moves_for(self.side)
    }

    /// The rules' successor of a (legal) move made by the side to move.
    pub fn make(&self, m: &Mv) -> Pos {
        let side = self.side;
        let mut n = self.clone();
        let moving = self.sq[m.from as usize].expect("make: empty from square");
        n.sq = self.place(m, side);
        // castling rights: lost when the king or a home rook moves, or a home rook is captured
        let mut lost = 0u8;
        for s in [m.from, m.to] {
            lost |= match s {
                E1 => WK | WQ,
                E8 => BK | BQ,
                A1 => WQ,
                H1 => WK,
                A8 => BQ,
                H8 => BK,
                _ => 0,
            };
        }
        n.rights = self.rights & !lost;
        // ep target after every double step, cleared otherwise
        n.ep = None;
        if moving.0 == P::Pawn && (rank_of(m.to) - rank_of(m.from)).abs() == 2 {
            n.ep = Some((m.from + m.to) / 2);
        }
        n.half = if moving.0 == P::Pawn || m.cap.is_some() {
            0
        } else {
            self.half + 1
        };
        n.ply = self.ply + 1;
        n.side = side.other();
        n
    }

    pub fn is_checkmate(&self) -> bool {
        self.in_check(self.side) && self.legal_moves().is_empty()
    }
    pub fn is_stalemate(&self) -> bool {
        !self.in_check(self.side) && self.legal_moves().is_empty()
    }

    /// Number of legal move sequences of exactly `depth` plies.
    pub fn perft(&self, depth: u32) -> u64 {
        if depth == 0 {
            return 1;
        }
        let ms = self.legal_moves();
        if depth == 1 {
            return ms.len() as u64;
        }
        ms.iter().map(|m| self.make(m).perft(depth - 1)).sum()
    }

    /// Is the position a consistent set-up in the sense of the properties' input domain?
    pub fn consistent(&self) -> Result<(), &'static str> {
        if self.count(P::King, Side::White) != 1 || self.count(P::King, Side::Black) != 1 {
            return Err("kings");
        }
        let wk = self.king_sq(Side::White).unwrap();
        let bk = self.king_sq(Side::Black).unwrap();
        if (file_of(wk) - file_of(bk)).abs() <= 1 && (rank_of(wk) - rank_of(bk)).abs() <= 1 {
            return Err("kings touch");
        }
        for s in 0..64u8 {
            if let Some((P::Pawn, _)) = self.sq[s as usize] {
                if rank_of(s) == 0 || rank_of(s) == 7 {
                    return Err("pawn on back rank");
                }
            }
        }
        if self.in_check(self.side.other()) {
            return Err("side not to move in check");
        }
        for (bit, k, r, c) in [
            (WK, E1, H1, Side::White),
            (WQ, E1, A1, Side::White),
            (BK, E8, H8, Side::Black),
            (BQ, E8, A8, Side::Black),
        ] {
            if self.rights & bit != 0
                && (self.sq[k as usize] != Some((P::King, c)) || self.sq[r as usize] != Some((P::Rook, c)))
            {
                return Err("unsupported right");
            }
        }
        if let Some(t) = self.ep {
            // the side that just moved made a double step over t
            let mover = self.side.other();
            let (trank, prank, orank) = if mover == Side::White { (2, 3, 1) } else { (5, 4, 6) };
            if rank_of(t) != trank {
                return Err("ep rank");
            }
            let f = file_of(t);
            if self.sq[t as usize].is_some()
                || self.sq[sq_of(f, orank).unwrap() as usize].is_some()
                || self.sq[sq_of(f, prank).unwrap() as usize] != Some((P::Pawn, mover))
            {
                return Err("ep inconsistent");
            }
        }
        Ok(())
    }

    // ---------------------------------------------------------------- FEN

    pub fn fen(&self) -> String {
        let mut s = String::new();
        for r in (0..8).rev() {
            let mut empty = 0;
            for f in 0..8 {
                match self.sq[(r * 8 + f) as usize] {
                    None => empty += 1,
                    Some((p, c)) => {
                        if empty > 0 {
                            s.push_str(&empty.to_string());
                            empty = 0;
                        }
                        s.push(piece_char(p, c));
                    }
                }
            }
            if empty > 0 {
                s.push_str(&empty.to_string());
            }
            if r > 0 {
                s.push('/');
            }
        }
        s.push(' ');
        s.push(if self.side == Side::White { 'w' } else { 'b' });
        s.push(' ');
        if self.rights == 0 {
            s.push('-');
        } else {
            for (bit, ch) in [(WK, 'K'), (WQ, 'Q'), (BK, 'k'), (BQ, 'q')] {
                if self.rights & bit != 0 {
                    s.push(ch);
                }
            }
        }
        s.push(' ');
        match self.ep {
            Some(t) => s.push_str(&sq_name(t)),
            None => s.push('-'),
        }
        s.push_str(&format!(" {} {}", self.half, self.ply / 2 + 1));
        s
    }

    pub fn from_fen(fen: &str) -> Result<Pos, String> {
        let parts: Vec<&str> = fen.split_whitespace().collect();
        if parts.len() < 4 {
            return Err(format!("bad fen: {}", fen));
        }
        let mut p = Pos::empty();
        let rows: Vec<&str> = parts[0].split('/').collect();
        if rows.len() != 8 {
            return Err("bad fen rows".into());
        }
        for (i, row) in rows.iter().enumerate() {
            let r = 7 - i as i8;
            let mut f = 0i8;
            for ch in row.chars() {
                if let Some(d) = ch.to_digit(10) {
                    f += d as i8;
                } else {
                    let pc = char_piece(ch).ok_or("bad fen piece")?;
                    let s = sq_of(f, r).ok_or("bad fen file")?;
                    p.sq[s as usize] = Some(pc);
                    f += 1;
                }
            }
            if f != 8 {
                return Err("bad fen row length".into());
            }
        }
        p.side = match parts[1] {
            "w" => Side::White,
            "b" => Side::Black,
            _ => return Err("bad fen side".into()),
        };
        for ch in parts[2].chars() {
            p.rights |= match ch {
                'K' => WK,
                'Q' => WQ,
                'k' => BK,
                'q' => BQ,
                '-' => 0,
                _ => return Err("bad fen rights".into()),
            };
        }
        p.ep = if parts[3] == "-" {
            None
        } else {
            Some(parse_sq(parts[3]).ok_or("bad fen ep")?)
        };
        p.half = parts.get(4).and_then(|x| x.parse().ok()).unwrap_or(0);
        let full: u32 = parts.get(5).and_then(|x| x.parse().ok()).unwrap_or(1);
        p.ply = (full.max(1) - 1) * 2 + if p.side == Side::Black { 1 } else { 0 };
        Ok(p)
    }

    /// 64-bit fingerprint of (placement, side, rights, ep) for distinctness counting.
    pub fn fingerprint(&self) -> u64 {
        let mut h: u64 = 0xcbf29ce484222325;
        let mut mix = |x: u64| {
            h ^= x;
            h = h.wrapping_mul(0x100000001b3);
            h ^= h >> 29;
        };
        for s in 0..64 {
            mix(match self.sq[s] {
                None => 0,
                Some((p, c)) => 1 + p as u64 * 2 + c as u64,
            });
        }
        mix(self.side as u64 + 100);
        mix(self.rights as u64 + 200);
        mix(self.ep.map(|x| x as u64 + 1).unwrap_or(0) + 300);
        h
    }

    /// Colour-swapped, 180-degree rotated position (square i -> 63 - i).
    pub fn rotated_swapped(&self) -> Pos {
        let mut n = Pos::empty();
        for s in 0..64 {
            n.sq[63 - s] = self.sq[s].map(|(p, c)| (p, c.other()));
        }
        n.side = self.side.other();
        // Rotation maps e1<->d8, so castling geometry is not preserved; rights are dropped.
        n.rights = 0;
        n.ep = self.ep.map(|t| 63 - t);
        n.half = self.half;
        n.ply = self.ply;
        n
    }
}

pub fn piece_char(p: P, c: Side) -> char {
    let ch = match p {
        P::Pawn => 'p',
        P::Knight => 'n',
        P::Bishop => 'b',
        P::Rook => 'r',
        P::Queen => 'q',
        P::King => 'k',
    };
    if c == Side::White {
        ch.to_ascii_uppercase()
    } else {
        ch
    }
}

pub fn char_piece(ch: char) -> Option<(P, Side)> {
    let p = match ch.to_ascii_lowercase() {
        'p' => P::Pawn,
        'n' => P::Knight,
        'b' => P::Bishop,
        'r' => P::Rook,
        'q' => P::Queen,
        'k' => P::King,
        _ => return None,
    };
    Some((p, if ch.is_ascii_uppercase() { Side::White } else { Side::Black }))
}

/// The six standard perft positions (chessprogramming.org) with published totals by depth.
pub const STANDARD: [(&str, &str, [u64; 5]); 6] = [
    (
        "initial",
        "rnbqkbnr/pppppppp/8/8/8/8/PPPPPPPP/RNBQKBNR w KQkq - 0 1",
        [20, 400, 8902, 197281, 4865609],
    ),
    (
        "kiwipete",
        "r3k2r/p1ppqpb1/bn2pnp1/3PN3/1p2P3/2N2Q1p/PPPBBPPP/R3K2R w KQkq - 0 1",
        [48, 2039, 97862, 4085603, 193690690],
    ),
    (
        "position3",
        "8/2p5/3p4/KP5r/1R3p1k/8/4P1P1/8 w - - 0 1",
        [14, 191, 2812, 43238, 674624],
    ),
    (
        "position4",
        "r3k2r/Pppp1ppp/1b3nbN/nP6/BBP1P3/q4N2/Pp1P2PP/R2Q1RK1 w kq - 0 1",
        [6, 264, 9467, 422333, 15833292],
    ),
    (
        "position5",
        "rnbq1k1r/pp1Pbppp/2p5/8/2B5/8/PPP1NnPP/RNBQK2R w KQ - 1 8",
        [44, 1486, 62379, 2103487, 89941194],
    ),
    (
        "position6",
        "r4rk1/1pp1qppp/p1np1n2/2b1p1B1/2B1P1b1/P1NP1N2/1PP1QPPP/R4RK1 w - - 0 10",
        [46, 2079, 89890, 3894594, 164075551],
    ),
];
