//! Reference Standard Algebraic Notation and long coordinate (UCI) writers.

use super::*;

pub fn uci(m: &Mv) -> String {
    let mut s = format!("{}{}", sq_name(m.from), sq_name(m.to));
    if let Some(p) = m.promo {
        s.push(match p {
            P::Queen => 'q',
            P::Rook => 'r',
            P::Bishop => 'b',
            P::Knight => 'n',
            _ => '?',
        });
    }
    s
}

pub fn piece_letter(p: P) -> &'static str {
    match p {
        P::Pawn => "",
        P::Knight => "N",
        P::Bishop => "B",
        P::Rook => "R",
        P::Queen => "Q",
        P::King => "K",
    }
}

/// SAN without the check/mate suffix. `legal` must be the legal moves of `pos`.
pub fn san_core(pos: &Pos, m: &Mv, legal: &[Mv]) -> String {
    if m.kind == Kind::Castle {
        return if m.to > m.from { "O-O".into() } else { "O-O-O".into() };
    }
    let (p, _) = pos.sq[m.from as usize].expect("san: empty from");
    let mut s = String::new();
    if p == P::Pawn {
        if m.cap.is_some() {
            s.push((b'a' + m.from % 8) as char);
            s.push('x');
        }
        s.push_str(&sq_name(m.to));
        if let Some(pp) = m.promo {
            s.push('=');
            s.push_str(piece_letter(pp));
        }
        return s;
    }
    s.push_str(piece_letter(p));
    // other legal moves of like pieces to the same square
    let others: Vec<&Mv> = legal
        .iter()
        .filter(|o| {
            o.to == m.to
                && o.from != m.from
                && o.kind != Kind::Castle
                && pos.sq[o.from as usize].map(|x| x.0) == Some(p)
        })
        .collect();
    if !others.is_empty() {
        let same_file = others.iter().any(|o| o.from % 8 == m.from % 8);
        let same_rank = others.iter().any(|o| o.from / 8 == m.from / 8);
        if !same_file {
            s.push((b'a' + m.from % 8) as char);
        } else if !same_rank {
            s.push((b'1' + m.from / 8) as char);
        } else {
            s.push_str(&sq_name(m.from));
        }
    }
    if m.cap.is_some() {
        s.push('x');
    }
    s.push_str(&sq_name(m.to));
    s
}

/// "", "+" or "#" according to the position the move produces.
pub fn suffix(pos: &Pos, m: &Mv) -> &'static str {
    let after = pos.make(m);
    if after.in_check(after.side) {
        if after.legal_moves().is_empty() {
            "#"
        } else {
            "+"
        }
    } else {
        ""
    }
}

pub fn san(pos: &Pos, m: &Mv, legal: &[Mv]) -> String {
    format!("{}{}", san_core(pos, m, legal), suffix(pos, m))
}

/// Resolve a SAN string leniently: suffix ignored, optional 'x' ignored, over-disambiguation
/// allowed. Returns every legal move the string could denote.
pub fn lenient_matches(pos: &Pos, text: &str, legal: &[Mv]) -> Vec<Mv> {
    let t = text.trim_end_matches(|c| c == '+' || c == '#');
    let mut out = Vec::new();
    for m in legal {
        if m.kind == Kind::Castle {
            let name = if m.to > m.from { "O-O" } else { "O-O-O" };
            if t == name {
                out.push(*m);
            }
            continue;
        }
        let (p, _) = pos.sq[m.from as usize].unwrap();
        let mut body = t.to_string();
        // promotion suffix
        if let Some(pp) = m.promo {
            let suf = format!("={}", piece_letter(pp));
            if let Some(b) = body.strip_suffix(&suf) {
                body = b.to_string();
            } else {
                continue;
            }
        } else if body.contains('=') {
            continue;
        }
        // destination
        let dest = sq_name(m.to);
        let body = match body.strip_suffix(&dest) {
            Some(b) => b.to_string(),
            None => continue,
        };
        // piece letter
        let rest = if p == P::Pawn {
            if body.starts_with(|c: char| "NBRQK".contains(c)) {
                continue;
            }
            body
        } else {
            match body.strip_prefix(piece_letter(p)) {
                Some(r) => r.to_string(),
                None => continue,
            }
        };
        // capture mark is optional in the lenient reading but must not be claimed falsely
        let (rest, has_x) = match rest.strip_suffix('x') {
            Some(r) => (r.to_string(), true),
            None => (rest, false),
        };
        if has_x && m.cap.is_none() {
            continue;
        }
        // remaining: "", file, rank or square consistent with the origin
        let from = sq_name(m.from);
        let ok = rest.is_empty()
            || rest == from
            || rest == from[0..1]
            || (p != P::Pawn && rest == from[1..2]);
        if ok {
            out.push(*m);
        }
    }
    out
}
