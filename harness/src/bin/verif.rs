use chess_verif::checks;
use chess_verif::oracle::{Pos, STANDARD};
use chess_verif::runner::*;
use serde_json::{json, Value};
use std::time::Instant;

fn usage() -> ! {
    eprintln!("usage: verif <ID> quick|thorough | verif <ID> --replay <file> | verif selftest");
    std::process::exit(2);
}

fn oracle_selftest(depth: usize) -> Result<(), String> {
    use rayon::prelude::*;
    let errs: Vec<String> = STANDARD
        .par_iter()
        .filter_map(|(name, fen, totals)| {
            let p = Pos::from_fen(fen).unwrap();
            if p.fen() != *fen {
                return Some(format!("FEN round trip failed for {}", name));
            }
            for d in 1..=depth {
                let got = p.perft(d as u32);
                if got != totals[d - 1] {
                    return Some(format!("{} perft({}) = {} expected {}", name, d, got, totals[d - 1]));
                }
            }
            None
        })
        .collect();
    if errs.is_empty() {
        Ok(())
    } else {
        Err(errs.join("; "))
    }
}

fn main() {
    let args: Vec<String> = std::env::args().skip(1).collect();
    if args.is_empty() {
        usage();
    }
    install_quiet_panic_hook();
    if args[0] == "selftest" {
        let t = Instant::now();
        match oracle_selftest(4) {
            Ok(()) => {
                println!("oracle selftest ok ({:.1}s)", t.elapsed().as_secs_f64());
                std::process::exit(0)
            }
            Err(e) => {
                eprintln!("INCONCLUSIVE: oracle broken: {}", e);
                std::process::exit(2)
            }
        }
    }
    let id = args[0].clone();
    let spec = match checks::property(&id) {
        Some(s) => s,
        None => {
            eprintln!("unknown property {}", id);
            std::process::exit(2);
        }
    };
    if args.len() < 2 {
        usage();
    }
    // every check runs with the small move-cache capacity unless it asks otherwise
    chess::verif_hooks::set_move_cache_capacity(Some(1 << 14));
    set_open_findings(&id);

    if args[1] == "--replay" {
        let path = args.get(2).cloned().unwrap_or_else(|| usage());
        let text = std::fs::read_to_string(&path).unwrap_or_else(|e| {
            eprintln!("cannot read {}: {}", path, e);
            std::process::exit(2)
        });
        let v: Value = serde_json::from_str(&text).unwrap_or_else(|e| {
            eprintln!("bad replay file: {}", e);
            std::process::exit(2)
        });
        let check = v["check"].as_str().unwrap_or("");
        let c = spec.checks.iter().find(|c| c.name() == check).unwrap_or_else(|| {
            eprintln!("replay file names check {:?} which {} does not have", check, id);
            std::process::exit(2)
        });
        match c.replay(&v["case"]) {
            Ok(Ok(())) => {
                println!("replay passed: {}", path);
                std::process::exit(0)
            }
            Ok(Err(f)) => {
                println!("replay failed: {}", f.msg);
                println!("VIOLATION property={} replay={}", id, path);
                std::process::exit(1)
            }
            Err(e) => {
                eprintln!("INCONCLUSIVE: cannot replay: {}", e);
                std::process::exit(2)
            }
        }
    }

    let tier = match args[1].as_str() {
        "quick" => Tier::Quick,
        "thorough" => Tier::Thorough,
        _ => usage(),
    };
    let seed: u64 = std::env::var("VERIF_SEED")
        .ok()
        .and_then(|s| s.trim().parse::<i128>().ok())
        .map(|x| x as u64)
        .unwrap_or(20261002);
    let scale: f64 = std::env::var("VERIF_SCALE").ok().and_then(|s| s.parse().ok()).unwrap_or(1.0);
    let env = Env { tier, seed, scale };

    // watchdog: a hang is inconclusive, never a violation
    let budget = std::time::Duration::from_secs(tier.pick(45 * 60, 8 * 3600));
    std::thread::spawn(move || {
        std::thread::sleep(budget);
        eprintln!("INCONCLUSIVE: watchdog timeout");
        std::process::exit(2);
    });

    let t0 = Instant::now();
    if let Err(e) = oracle_selftest(tier.pick(3, 4)) {
        eprintln!("INCONCLUSIVE: oracle broken: {}", e);
        std::process::exit(2);
    }

    let mut stats = Stats::default();
    let mut violation: Option<(Violation, String)> = None;

    // 1. regression replays
    let mut regress = 0u64;
    if let Ok(rd) = std::fs::read_dir("/verif/replays/regress") {
        let mut files: Vec<_> = rd.filter_map(|e| e.ok()).map(|e| e.path()).collect();
        files.sort();
        for path in files {
            let fname = path.file_name().unwrap().to_string_lossy().to_string();
            if !fname.starts_with(&format!("{}-", id)) || !fname.ends_with(".json") {
                continue;
            }
            let v: Value = match std::fs::read_to_string(&path).ok().and_then(|t| serde_json::from_str(&t).ok()) {
                Some(v) => v,
                None => {
                    eprintln!("INCONCLUSIVE: unreadable regression file {}", path.display());
                    std::process::exit(2);
                }
            };
            let check = v["check"].as_str().unwrap_or("");
            if let Some(c) = spec.checks.iter().find(|c| c.name() == check) {
                regress += 1;
                match c.replay(&v["case"]) {
                    Ok(Ok(())) => {}
                    Ok(Err(f)) => {
                        violation = Some((
                            Violation {
                                check: check.to_string(),
                                msg: f.msg,
                                case: v["case"].clone(),
                                detail: f.detail,
                            },
                            path.display().to_string(),
                        ));
                        break;
                    }
                    Err(e) => {
                        eprintln!("INCONCLUSIVE: cannot replay {}: {}", path.display(), e);
                        std::process::exit(2);
                    }
                }
            }
        }
    }
    stats.count("regression_replays", regress);

    // 2. the checks
    let mut per_check = serde_json::Map::new();
    if violation.is_none() {
        for c in &spec.checks {
            let tc = Instant::now();
            let mut st = Stats::default();
            let v = c.run(&env, &mut st);
            per_check.insert(
                c.name().to_string(),
                json!({"evaluations": st.evaluations, "distinct_nontrivial": st.nontrivial.len(), "wall_s": tc.elapsed().as_secs_f64()}),
            );
            eprintln!(
                "[{}] {} evaluations, {} distinct non-trivial, {:.1}s",
                c.name(),
                st.evaluations,
                st.nontrivial.len(),
                tc.elapsed().as_secs_f64()
            );
            stats.merge(st);
            if let Some(v) = v {
                let path = write_replay(&id, &v, &env);
                violation = Some((v, path));
                break;
            }
        }
    }

    let wall = t0.elapsed().as_secs_f64();
    write_evidence(
        &id,
        &env,
        &stats,
        spec.rule,
        &spec.assumptions,
        wall,
        if violation.is_some() { 1 } else { 0 },
        json!({"per_check": per_check}),
    );
    match violation {
        Some((v, path)) => {
            println!("{}: {}", v.check, v.msg);
            println!("case: {}", v.case);
            println!("VIOLATION property={} replay={}", id, path);
            std::process::exit(1);
        }
        None => {
            println!(
                "{} {}: held on {} evaluations ({} distinct non-trivial) in {:.1}s",
                id,
                tier.name(),
                stats.evaluations,
                stats.nontrivial.len(),
                wall
            );
            std::process::exit(0);
        }
    }
}
