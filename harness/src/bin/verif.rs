use chess_verif::checks;
use chess_verif::oracle::{Pos, STANDARD};
use chess_verif::runner::*;
use serde_json::{json, Value};
use std::time::Instant;

fn usage() -> ! {
    eprintln!("usage: verif <ID> quick|thorough | verif <ID> --replay <file> | verif selftest");
    std::process::exit(2);
}

fn oracle_selftest(depth: usize) -> Result<(), String> {
    use rayon::prelude::*;
    let errs: Vec<String> = STANDARD
        .par_iter()
        .filter_map(|(name, fen, totals)| {
            let p = Pos::from_fen(fen).unwrap();
            if p.fen() != *fen {
                return Some(format!("FEN round trip failed for {}", name));
            }
            for d in 1..=depth {
                let got = p.perft(d as u32);
                if got != totals[d - 1] {
                    return Some(format!("{} perft({}) = {} expected {}", name, d, got, totals[d - 1]));
                }
            }
            None
        })
        .collect();
    if errs.is_empty() {
        Ok(())
    } else {
        Err(errs.join("; "))
    }
}

/// Offline helper (not a check): random playouts from the initial position with the reference
/// rules; prints, for every label SHAPE seen (piece letter / disambiguation kind / capture /
/// promotion / suffix / castling), the shortest game whose last move carries such a label.
/// The output is curated into /verif/corpus/pvp_games.txt.
fn tool_pvp_corpus(games: u64, seed: u64) {
    use chess_verif::oracle::notation::{san, uci};
    use chess_verif::oracle::{Kind, Mv, P};
    use std::collections::BTreeMap;
    let shape = |label: &str| -> String {
        if label.starts_with("O-O") {
            return label.to_string();
        }
        let mut out = String::new();
        let mut after_eq = false;
        for (i, ch) in label.chars().enumerate() {
            out.push(match ch {
                // 'B' is also a file letter for the input parser: keep it apart
                'B' if i == 0 => 'B',
                'N' | 'R' | 'Q' | 'K' if i == 0 => 'P',
                'N' | 'B' | 'R' | 'Q' if after_eq => 'M',
                'a'..='h' => 'f',
                '1'..='8' => 'r',
                '=' => {
                    after_eq = true;
                    '='
                }
                c => c,
            });
        }
        out
    };
    let mut x = seed.wrapping_mul(0x9E3779B97F4A7C15) | 1;
    let mut next = move || {
        x ^= x << 13;
        x ^= x >> 7;
        x ^= x << 17;
        x
    };
    let mut best: BTreeMap<String, Vec<Mv>> = BTreeMap::new();
    for _ in 0..games {
        let mut pos = Pos::start();
        let mut line: Vec<Mv> = Vec::new();
        let style = next() % 3;
        for _ply in 0..110 {
            let legal = pos.legal_moves();
            if legal.is_empty() || pos.half >= 100 {
                break;
            }
            for m in &legal {
                let label = san(&pos, m, &legal);
                let mut sh = shape(&label);
                // "B<rank><square>" also reads as a coordinate pair starting on the b-file:
                // keep the cases apart where the bishop does NOT stand on the b-file
                if sh.starts_with("Br") && m.from % 8 != 1 {
                    sh.push_str("(not-b-file)");
                }
                let len = line.len() + 1;
                if best.get(&sh).map(|b| b.len() > len).unwrap_or(true) {
                    let mut g = line.clone();
                    g.push(*m);
                    best.insert(sh, g);
                }
            }
            // policy: sometimes push/capture with pawns (promotions), sometimes avoid captures of pieces
            let pawn_moves: Vec<&Mv> = legal.iter().filter(|m| pos.sq[m.from as usize].map(|p| p.0) == Some(P::Pawn)).collect();
            let want_piece = [P::Queen, P::Queen, P::Bishop, P::Knight, P::Rook][(style as usize + line.len()) % 5];
            let promos: Vec<&Mv> = legal.iter().filter(|m| m.kind == Kind::Promo && m.promo == Some(want_piece)).collect();
            let non_caps: Vec<&Mv> = legal.iter().filter(|m| m.cap.is_none()).collect();
            let r = next();
            let m = if !promos.is_empty() && r % 4 != 0 {
                *promos[(next() % promos.len() as u64) as usize]
            } else if style == 0 && !pawn_moves.is_empty() && r % 3 != 0 {
                *pawn_moves[(next() % pawn_moves.len() as u64) as usize]
            } else if style == 1 && !non_caps.is_empty() && r % 5 != 0 {
                *non_caps[(next() % non_caps.len() as u64) as usize]
            } else {
                legal[(next() % legal.len() as u64) as usize]
            };
            pos = pos.make(&m);
            line.push(m);
        }
    }
    for (sh, g) in &best {
        println!("# shape {}\n{}", sh, g.iter().map(uci).collect::<Vec<_>>().join(" "));
    }
    eprintln!("{} shapes", best.len());
}

const FUZZED: [&str; 5] = ["C03", "C04", "C05", "C12", "C16"];

struct FuzzOutcome {
    executions: u64,
    coverage: u64,
    corpus: u64,
    secs: f64,
    artifact: Option<String>,
    message: String,
}

/// Coverage-guided campaign on the generator-free board-history target (thorough tiers):
/// WORKERS independent libFuzzer processes (own corpus directory, seed VERIF_SEED + i), fixed runs.
fn run_fuzz(id: &str, env: &Env) -> FuzzOutcome {
    const WORKERS: u64 = 12;
    let bin = "/verif/target/fuzz/x86_64-unknown-linux-gnu/release/board_history";
    if !std::path::Path::new(bin).exists() {
        eprintln!("INCONCLUSIVE: {} not built", bin);
        std::process::exit(2);
    }
    let runs: u64 = ((100_000.0 * env.scale) as u64).max(500);
    let _ = std::fs::create_dir_all("/verif/replays/found");
    let t = Instant::now();
    let mut children = Vec::new();
    for w in 0..WORKERS {
        let corpus = format!("/verif/target/fuzz-corpus/{}-{}-{}", id, std::process::id(), w);
        let _ = std::fs::remove_dir_all(&corpus);
        let _ = std::fs::create_dir_all(&corpus);
        let child = std::process::Command::new(bin)
            .env("VERIF_FUZZ_PROPERTY", id)
            .arg(&corpus)
            .arg("/verif/corpus/fuzz")
            .arg(format!("-runs={}", runs))
            .arg(format!("-seed={}", ((env.seed + w * 7919) % 0xFFFF_FFFF).max(1)))
            .args(["-len_control=0", "-max_len=512", "-print_final_stats=1", "-timeout=120", "-rss_limit_mb=4096"])
            .arg(format!("-artifact_prefix=/verif/replays/found/fuzz-{}-", id))
            .stdout(std::process::Stdio::null())
            .stderr(match std::fs::File::create(format!("{}.log", corpus)) {
                Ok(f) => std::process::Stdio::from(f),
                Err(_) => std::process::Stdio::null(),
            })
            .spawn();
        match child {
            Ok(c) => children.push((c, corpus)),
            Err(e) => {
                eprintln!("INCONCLUSIVE: cannot start the fuzz target: {}", e);
                std::process::exit(2);
            }
        }
    }
    let mut total = FuzzOutcome {
        executions: 0,
        coverage: 0,
        corpus: 0,
        secs: 0.0,
        artifact: None,
        message: String::new(),
    };
    for (c, corpus) in children {
        let mut c = c;
        let status = match c.wait() {
            Ok(o) => o,
            Err(e) => {
                eprintln!("INCONCLUSIVE: fuzz worker lost: {}", e);
                std::process::exit(2);
            }
        };
        let text = std::fs::read_to_string(format!("{}.log", corpus)).unwrap_or_default();
        let _ = std::fs::remove_file(format!("{}.log", corpus));
        let grab = |key: &str| -> u64 {
            text.lines()
                .rev()
                .find_map(|l| l.find(key).map(|i| l[i + key.len()..].trim().split_whitespace().next().unwrap_or("0").to_string()))
                .and_then(|v| v.parse().ok())
                .unwrap_or(0)
        };
        total.executions += grab("stat::number_of_executed_units:");
        total.coverage = total.coverage.max(grab(" cov: "));
        total.corpus += std::fs::read_dir(&corpus).map(|d| d.count() as u64).unwrap_or(0);
        let _ = std::fs::remove_dir_all(&corpus);
        if !status.success() && total.artifact.is_none() {
            let mut artifact = None;
            let mut message = String::new();
            for l in text.lines() {
                if let Some(i) = l.find("Test unit written to ") {
                    artifact = Some(l[i + 21..].trim().to_string());
                }
                if l.contains("VIOLATION") && !message.contains("VIOLATION") {
                    message = l.trim().to_string();
                } else if l.contains("panicked at") && message.is_empty() {
                    message = l.trim().to_string();
                }
            }
            match artifact {
                None => {
                    eprintln!("INCONCLUSIVE: fuzz worker failed without a crash artifact:\n{}", text.lines().rev().take(30).collect::<Vec<_>>().join("\n"));
                    std::process::exit(2);
                }
                Some(a) if a.contains("timeout-") || a.contains("oom-") => {
                    eprintln!("INCONCLUSIVE: fuzz worker hit a timeout/oom: {}", a);
                    std::process::exit(2);
                }
                Some(a) => {
                    total.artifact = Some(a);
                    total.message = message;
                }
            }
        }
    }
    total.secs = t.elapsed().as_secs_f64();
    total
}

fn main() {
    let args: Vec<String> = std::env::args().skip(1).collect();
    if args.is_empty() {
        usage();
    }
    install_quiet_panic_hook();
    if args[0] == "selftest" {
        let t = Instant::now();
        match oracle_selftest(4) {
            Ok(()) => {
                println!("oracle selftest ok ({:.1}s)", t.elapsed().as_secs_f64());
                std::process::exit(0)
            }
            Err(e) => {
                eprintln!("INCONCLUSIVE: oracle broken: {}", e);
                std::process::exit(2)
            }
        }
    }
    if args[0] == "tool" && args.get(1).map(|s| s.as_str()) == Some("pvp-corpus") {
        tool_pvp_corpus(
            args.get(2).and_then(|s| s.parse().ok()).unwrap_or(20000),
            args.get(3).and_then(|s| s.parse().ok()).unwrap_or(1),
        );
        return;
    }
    let id = args[0].clone();
    let spec = match checks::property(&id) {
        Some(s) => s,
        None => {
            eprintln!("unknown property {}", id);
            std::process::exit(2);
        }
    };
    if args.len() < 2 {
        usage();
    }
    // every check runs with the small move-cache capacity unless it asks otherwise
    chess::verif_hooks::set_move_cache_capacity(Some(1 << 14));
    set_open_findings(&id);

    if args[1] == "--replay" {
        let path = args.get(2).cloned().unwrap_or_else(|| usage());
        let bytes = std::fs::read(&path).unwrap_or_else(|e| {
            eprintln!("cannot read {}: {}", path, e);
            std::process::exit(2)
        });
        let parsed: Option<Value> = std::str::from_utf8(&bytes).ok().and_then(|t| serde_json::from_str(t).ok());
        let v: Value = match parsed {
            Some(v) if v.get("check").is_some() => v,
            _ => {
                // a libFuzzer artifact: raw bytes for the board-history target
                if !FUZZED.contains(&id.as_str()) {
                    eprintln!("bad replay file for {}", id);
                    std::process::exit(2);
                }
                match no_panic(|| chess_verif::fuzz::check(&bytes, &id)) {
                    Ok(Ok(())) => {
                        println!("replay passed: {}", path);
                        std::process::exit(0)
                    }
                    Ok(Err(f)) => {
                        println!("replay failed: {}", f.msg);
                        println!("history: {}", chess_verif::fuzz::decode(&bytes).map(|h| chess_verif::history::describe(&h).to_string()).unwrap_or_default());
                        println!("VIOLATION property={} replay={}", id, path);
                        std::process::exit(1)
                    }
                    Err(m) => {
                        println!("replay failed: panic: {}", m);
                        println!("VIOLATION property={} replay={}", id, path);
                        std::process::exit(1)
                    }
                }
            }
        };
        let check = v["check"].as_str().unwrap_or("");
        let c = spec.checks.iter().find(|c| c.name() == check).unwrap_or_else(|| {
            eprintln!("replay file names check {:?} which {} does not have", check, id);
            std::process::exit(2)
        });
        match c.replay(&v["case"]) {
            Ok(Ok(())) => {
                println!("replay passed: {}", path);
                std::process::exit(0)
            }
            Ok(Err(f)) => {
                println!("replay failed: {}", f.msg);
                println!("VIOLATION property={} replay={}", id, path);
                std::process::exit(1)
            }
            Err(e) => {
                eprintln!("INCONCLUSIVE: cannot replay: {}", e);
                std::process::exit(2)
            }
        }
    }

    let tier = match args[1].as_str() {
        "quick" => Tier::Quick,
        "thorough" => Tier::Thorough,
        _ => usage(),
    };
    let seed: u64 = std::env::var("VERIF_SEED")
        .ok()
        .and_then(|s| s.trim().parse::<i128>().ok())
        .map(|x| x as u64)
        .unwrap_or(20261002);
    let scale: f64 = std::env::var("VERIF_SCALE").ok().and_then(|s| s.parse().ok()).unwrap_or(1.0);
    let env = Env { tier, seed, scale };

    // watchdog: a hang is inconclusive, never a violation
    let budget = std::time::Duration::from_secs(tier.pick(45 * 60, 8 * 3600));
    std::thread::spawn(move || {
        std::thread::sleep(budget);
        eprintln!("INCONCLUSIVE: watchdog timeout");
        std::process::exit(2);
    });

    let t0 = Instant::now();
    if let Err(e) = oracle_selftest(tier.pick(3, 4)) {
        eprintln!("INCONCLUSIVE: oracle broken: {}", e);
        std::process::exit(2);
    }

    let mut stats = Stats::default();
    let mut violation: Option<(Violation, String)> = None;

    // 1. regression replays
    let mut regress = 0u64;
    if let Ok(rd) = std::fs::read_dir("/verif/replays/regress") {
        let mut files: Vec<_> = rd.filter_map(|e| e.ok()).map(|e| e.path()).collect();
        files.sort();
        for path in files {
            let fname = path.file_name().unwrap().to_string_lossy().to_string();
            if !fname.starts_with(&format!("{}-", id)) || !fname.ends_with(".json") {
                continue;
            }
            let v: Value = match std::fs::read_to_string(&path).ok().and_then(|t| serde_json::from_str(&t).ok()) {
                Some(v) => v,
                None => {
                    eprintln!("INCONCLUSIVE: unreadable regression file {}", path.display());
                    std::process::exit(2);
                }
            };
            let check = v["check"].as_str().unwrap_or("");
            if let Some(c) = spec.checks.iter().find(|c| c.name() == check) {
                regress += 1;
                match c.replay(&v["case"]) {
                    Ok(Ok(())) => {}
                    Ok(Err(f)) => {
                        violation = Some((
                            Violation {
                                check: check.to_string(),
                                msg: f.msg,
                                case: v["case"].clone(),
                                detail: f.detail,
                            },
                            path.display().to_string(),
                        ));
                        break;
                    }
                    Err(e) => {
                        eprintln!("INCONCLUSIVE: cannot replay {}: {}", path.display(), e);
                        std::process::exit(2);
                    }
                }
            }
        }
    }
    stats.count("regression_replays", regress);

    // 2. the checks
    let mut per_check = serde_json::Map::new();
    if violation.is_none() {
        // VERIF_ONLY=<substring> restricts a run to some sub-checks (experiments only; the
        // registered commands never set it)
        let only = std::env::var("VERIF_ONLY").ok();
        for c in &spec.checks {
            if let Some(o) = &only {
                if !c.name().contains(o.as_str()) {
                    continue;
                }
            }
            let tc = Instant::now();
            let mut st = Stats::default();
            let v = c.run(&env, &mut st);
            per_check.insert(
                c.name().to_string(),
                json!({"evaluations": st.evaluations, "distinct_nontrivial": st.nontrivial.len(), "wall_s": tc.elapsed().as_secs_f64()}),
            );
            eprintln!(
                "[{}] {} evaluations, {} distinct non-trivial, {:.1}s",
                c.name(),
                st.evaluations,
                st.nontrivial.len(),
                tc.elapsed().as_secs_f64()
            );
            stats.merge(st);
            if let Some(v) = v {
                let path = write_replay(&id, &v, &env);
                violation = Some((v, path));
                break;
            }
        }
    }

    // 3. coverage-guided fuzzing of the generator-free history target (thorough tiers)
    let mut fuzz_json = Value::Null;
    if violation.is_none() && tier == Tier::Thorough && FUZZED.contains(&id.as_str()) {
        let f = run_fuzz(&id, &env);
        eprintln!(
            "[{}/fuzz board_history] {} executions, cov {}, corpus {}, {:.1}s",
            id, f.executions, f.coverage, f.corpus, f.secs
        );
        stats.count("fuzz_executions", f.executions);
        fuzz_json = json!({"target": "board_history", "executions": f.executions, "final_coverage_edges": f.coverage, "final_corpus_files": f.corpus, "wall_s": f.secs});
        if let Some(a) = f.artifact {
            violation = Some((
                Violation {
                    check: "fuzz/board_history".into(),
                    msg: f.message,
                    case: json!({"artifact": a}),
                    detail: Value::Null,
                },
                a,
            ));
        }
    }

    let wall = t0.elapsed().as_secs_f64();
    write_evidence(
        &id,
        &env,
        &stats,
        spec.rule,
        &spec.assumptions,
        wall,
        if violation.is_some() { 1 } else { 0 },
        json!({"per_check": per_check, "fuzz": fuzz_json}),
    );
    match violation {
        Some((v, path)) => {
            println!("{}: {}", v.check, v.msg);
            println!("case: {}", v.case);
            println!("VIOLATION property={} replay={}", id, path);
            std::process::exit(1);
        }
        None => {
            println!(
                "{} {}: held on {} evaluations ({} distinct non-trivial) in {:.1}s",
                id,
                tier.name(),
                stats.evaluations,
                stats.nontrivial.len(),
                wall
            );
            std::process::exit(0);
        }
    }
}
