//! Controlled scheduler for the parallel search (C09). Installed as the engine's
//! `SearchObserver` (cfg chess_verif). With a pool at least as large as the number of root
//! moves every root task gets its own worker; each parks at TaskBegin; once all have arrived
//! exactly one runs at a time and control is handed over only at shared-cache reads/writes and
//! task ends, to the task chosen by the generated strategy.

use chess::verif_hooks::{SearchEvent, SearchObserver};
use serde::{Deserialize, Serialize};
use std::cell::Cell;
use std::collections::HashMap;
use std::sync::{Condvar, Mutex};
use std::time::Duration;

#[derive(Clone, Debug, Serialize, Deserialize, PartialEq)]
pub enum Strategy {
    /// lowest task index first, run to completion
    InOrder,
    /// run to completion in the order of the given priorities (cyclic)
    Permuted(Vec<u16>),
    /// priority scheduling with priority change points (PCT): at step k in `changes` the
    /// running task gets the lowest priority
    Pct(Vec<u16>, Vec<u16>),
    /// switch to the next waiting task every `quantum` cache accesses
    RoundRobin(u8),
    /// at every yield point pick by the next generated choice (cyclic)
    RandomWalk(Vec<u8>),
}

#[derive(Default, Clone, Debug)]
pub struct Log {
    pub steps: usize,
    pub switches: usize,
    pub trace_hash: u64,
    pub cross_task_hits: usize,
    pub hits: usize,
    pub writes: usize,
    pub impure_key: Option<String>,
    /// scheduler steps at which a value was stored that the same run later replaced by a
    /// different value (a provisional store): used only to direct further schedules
    pub rewrites: Vec<usize>,
    pub stalled: bool,
}

struct State {
    active: bool,
    expected: usize,
    begun: usize,
    waiting: Vec<bool>,
    ended: Vec<bool>,
    running: Option<usize>,
    started: bool,
    strategy: Strategy,
    prio: Vec<i64>,
    since_switch: usize,
    log: Log,
    /// key -> (value, writer task, step of the store)
    written: HashMap<String, (i16, usize, usize)>,
    pending_read: Vec<Option<String>>,
}

pub struct Sched {
    st: Mutex<State>,
    cvs: Vec<Condvar>,
}

thread_local! {
    static CUR: Cell<Option<usize>> = const { Cell::new(None) };
}

impl State {
    fn candidates(&self) -> Vec<usize> {
        (0..self.expected).filter(|&i| self.waiting[i] && !self.ended[i]).collect()
    }

    fn pick(&mut self, cur: Option<usize>) -> Option<usize> {
        let cands = self.candidates();
        if cands.is_empty() {
            return None;
        }
        self.log.steps += 1;
        let step = self.log.steps;
        let c = match &self.strategy {
            Strategy::InOrder => match cur {
                Some(c) if !self.ended[c] => c,
                _ => cands[0],
            },
            Strategy::Permuted(_) => match cur {
                Some(c) if !self.ended[c] => c,
                _ => *cands.iter().max_by_key(|&&i| (self.prio[i], std::cmp::Reverse(i))).unwrap(),
            },
            Strategy::Pct(_, changes) => {
                if let Some(c) = cur {
                    if changes.iter().any(|k| *k as usize == step) {
                        self.prio[c] = -(step as i64);
                    }
                }
                *cands.iter().max_by_key(|&&i| (self.prio[i], std::cmp::Reverse(i))).unwrap()
            }
            Strategy::RoundRobin(q) => {
                let q = (*q).max(1) as usize;
                match cur {
                    Some(c) if !self.ended[c] && self.since_switch < q => c,
                    Some(c) => *cands.iter().find(|&&i| i > c).unwrap_or(&cands[0]),
                    None => cands[0],
                }
            }
            Strategy::RandomWalk(choices) => {
                let k = if choices.is_empty() { 0 } else { choices[step % choices.len()] as usize };
                cands[k % cands.len()]
            }
        };
        if Some(c) == cur {
            self.since_switch += 1;
        } else {
            self.since_switch = 0;
        }
        self.log.trace_hash = self.log.trace_hash.wrapping_mul(0x100000001b3) ^ (c as u64 + 1);
        Some(c)
    }
}

impl Sched {
    pub fn new() -> Sched {
        Sched {
            st: Mutex::new(State {
                active: false,
                expected: 0,
                begun: 0,
                waiting: vec![],
                ended: vec![],
                running: None,
                started: false,
                strategy: Strategy::InOrder,
                prio: vec![],
                since_switch: 0,
                log: Log::default(),
                written: HashMap::new(),
                pending_read: vec![],
            }),
            cvs: (0..512).map(|_| Condvar::new()).collect(),
        }
    }

    /// Arm the scheduler for the next search.
    pub fn arm(&self, strategy: Strategy) {
        let mut st = self.st.lock().unwrap();
        st.active = true;
        st.strategy = strategy;
        st.started = false;
        st.begun = 0;
        st.expected = 0;
        st.running = None;
        st.since_switch = 0;
        st.log = Log {
            trace_hash: 0xcbf29ce484222325,
            ..Log::default()
        };
        st.written.clear();
    }

    /// Disarm; returns what happened.
    pub fn disarm(&self) -> Log {
        let mut st = self.st.lock().unwrap();
        st.active = false;
        st.log.clone()
    }

    fn yield_point(&self, idx: usize, ending: bool, beginning: bool) {
        let mut st = self.st.lock().unwrap();
        if !st.active || idx >= st.expected {
            return;
        }
        if beginning {
            st.begun += 1;
        }
        if ending {
            st.ended[idx] = true;
            st.waiting[idx] = false;
        } else {
            st.waiting[idx] = true;
        }
        if st.started {
            let n = st.pick(if ending { None } else { Some(idx) });
            if n != Some(idx) {
                st.log.switches += 1;
            }
            st.running = n;
            if let Some(j) = n {
                if j != idx {
                    self.cvs[j].notify_all();
                }
            }
        } else if st.begun == st.expected {
            st.started = true;
            let n = st.pick(None);
            st.running = n;
            if let Some(j) = n {
                if j != idx {
                    self.cvs[j].notify_all();
                }
            }
        }
        if ending {
            return;
        }
        let mut waited = 0;
        while st.running != Some(idx) {
            let (g, timeout) = self.cvs[idx].wait_timeout(st, Duration::from_secs(5)).unwrap();
            st = g;
            if timeout.timed_out() {
                waited += 1;
                if !st.started && waited >= 2 {
                    // not every task got its own worker: give up control rather than stall
                    st.log.stalled = true;
                    st.active = false;
                    for cv in &self.cvs {
                        cv.notify_all();
                    }
                    return;
                }
                if waited >= 24 {
                    st.log.stalled = true;
                    st.active = false;
                    for cv in &self.cvs {
                        cv.notify_all();
                    }
                    return;
                }
            }
            if !st.active {
                return;
            }
        }
        st.waiting[idx] = false;
    }
}

impl Default for Sched {
    fn default() -> Self {
        Sched::new()
    }
}

thread_local! {
    /// Some(k) on a worker of the k-th controlled pool (threads named "ctl<k>-<i>")
    static CTL_SLOT: Cell<Option<Option<usize>>> = const { Cell::new(None) };
}

/// Only threads of the dedicated controlled pools are scheduled; searches running elsewhere
/// in the process are ignored.
fn controlled_slot() -> Option<usize> {
    CTL_SLOT.with(|c| match c.get() {
        Some(b) => b,
        None => {
            let b = std::thread::current().name().and_then(|n| {
                let rest = n.strip_prefix("ctl")?;
                let k: String = rest.chars().take_while(|ch| ch.is_ascii_digit()).collect();
                k.parse::<usize>().ok()
            });
            c.set(Some(b));
            b
        }
    })
}

/// Several independent schedulers behind the one process-wide observer: the k-th one controls
/// the searches running in the pool whose threads are named "ctl<k>-*".
pub struct MultiSched {
    pub slots: Vec<std::sync::Arc<Sched>>,
}

impl MultiSched {
    pub fn new(n: usize) -> MultiSched {
        MultiSched {
            slots: (0..n).map(|_| std::sync::Arc::new(Sched::new())).collect(),
        }
    }
}

impl SearchObserver for MultiSched {
    fn on_event(&self, ev: &SearchEvent) {
        if let Some(k) = controlled_slot() {
            if let Some(s) = self.slots.get(k) {
                s.handle(ev);
            }
        }
    }
}

impl SearchObserver for Sched {
    fn on_event(&self, ev: &SearchEvent) {
        if controlled_slot().is_some() {
            self.handle(ev);
        }
    }
}

impl Sched {
    pub fn handle(&self, ev: &SearchEvent) {
        match ev {
            SearchEvent::SearchBegin { tasks } => {
                let mut st = self.st.lock().unwrap();
                if !st.active {
                    return;
                }
                let n = *tasks;
                st.expected = n;
                st.begun = 0;
                st.waiting = vec![false; n];
                st.ended = vec![false; n];
                st.pending_read = vec![None; n];
                st.running = None;
                st.started = n == 0;
                let prios: Vec<u16> = match &st.strategy {
                    Strategy::Permuted(p) | Strategy::Pct(p, _) => p.clone(),
                    _ => vec![],
                };
                st.prio = (0..n)
                    .map(|i| if prios.is_empty() { 0 } else { prios[i % prios.len()] as i64 })
                    .collect();
            }
            SearchEvent::TaskBegin { index } => {
                CUR.with(|c| c.set(Some(*index)));
                self.yield_point(*index, false, true);
            }
            SearchEvent::TaskEnd { index } => {
                self.yield_point(*index, true, false);
                CUR.with(|c| c.set(None));
            }
            SearchEvent::CacheRead { key, .. } => {
                if let Some(i) = CUR.with(|c| c.get()) {
                    self.yield_point(i, false, false);
                    let mut st = self.st.lock().unwrap();
                    if st.active && i < st.pending_read.len() {
                        st.pending_read[i] = Some(key.clone());
                    }
                }
            }
            SearchEvent::CacheReadDone { hit } => {
                if let Some(i) = CUR.with(|c| c.get()) {
                    let mut st = self.st.lock().unwrap();
                    if !st.active || i >= st.pending_read.len() {
                        return;
                    }
                    let key = st.pending_read[i].take();
                    if hit.is_some() {
                        st.log.hits += 1;
                        if let Some(k) = key {
                            if let Some((_, writer, _)) = st.written.get(&k) {
                                if *writer != i {
                                    st.log.cross_task_hits += 1;
                                }
                            }
                        }
                    }
                }
            }
            SearchEvent::CacheWrite { key, value } => {
                if let Some(i) = CUR.with(|c| c.get()) {
                    self.yield_point(i, false, false);
                    let mut st = self.st.lock().unwrap();
                    if !st.active {
                        return;
                    }
                    st.log.writes += 1;
                    if let Some((old, _, step)) = st.written.get(key).cloned() {
                        if old != *value {
                            if st.log.impure_key.is_none() {
                                st.log.impure_key = Some(format!("{} written as {} and as {}", key, old, value));
                            }
                            if st.log.rewrites.len() < 4096 {
                                st.log.rewrites.push(step);
                            }
                        }
                    }
                    let step = st.log.steps;
                    st.written.insert(key.clone(), (*value, i, step));
                }
            }
        }
    }
}
