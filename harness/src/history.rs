//! Lock-step interpreter of move/undo histories against the engine board and the oracle.
//! Shared by C03/C04/C05/C12/C16 and by the fuzz target; `Which` selects the oracle asserted.

use crate::bridge::*;
use crate::oracle::*;
use crate::runner::{Failure, Stats, TestResult};
use chess::board::Board;
use chess::chess_move::chess_move::ChessMove;
use chess::move_generator::MoveGenerator;
use proptest::prelude::*;
use serde::{Deserialize, Serialize};
use serde_json::json;

#[derive(Clone, Debug, Serialize, Deserialize, PartialEq)]
pub enum Op {
    /// make the selected legal move
    Move(u16),
    /// prefer a move that is neither a capture nor a pawn move
    Quiet(u16),
    /// prefer a capture or pawn move
    Noisy(u16),
    /// prefer castling, en passant, promotion, rook capture, king/rook move with rights held
    Special(u16),
    Undo,
    Unwind(u8),
    /// call an engine routine that must leave the board untouched
    Probe(u8),
    /// continue on a clone of the board (the original is dropped): a copy must carry the
    /// whole undo history
    CloneBoard,
    /// direct set-up in the middle of a history (key mode only): put a piece on a square that
    /// is empty now and in every earlier position of the stack and not touched by any move
    /// still to be undone
    Edit(u8, u8, bool),
}

#[derive(Clone, Copy, Debug, Default)]
pub struct Which {
    pub successor: bool,
    pub undo: bool,
    pub key: bool,
    pub invariants: bool,
    pub clocks: bool,
    pub register: bool,
    pub probes: bool,
    /// draw verdict of game_ending vs the reference clock (C16)
    pub draw: bool,
    /// apply the engine's own generated move objects instead of constructor-built ones
    pub engine_moves: bool,
}

#[derive(Clone, Debug, Serialize, Deserialize)]
pub struct History {
    pub fen: String,
    pub ops: Vec<Op>,
}

pub fn op_strategy(quiet_w: u32, noisy_w: u32, special_w: u32, undo_w: u32, probe_w: u32) -> BoxedStrategy<Op> {
    prop_oneof![
        10 => any::<u16>().prop_map(Op::Move),
        quiet_w => any::<u16>().prop_map(Op::Quiet),
        noisy_w => any::<u16>().prop_map(Op::Noisy),
        special_w => any::<u16>().prop_map(Op::Special),
        undo_w => Just(Op::Undo),
        (undo_w / 4).max(if undo_w > 0 { 1 } else { 0 }) => (1u8..40).prop_map(Op::Unwind),
        probe_w => (0u8..6).prop_map(Op::Probe),
        1 => Just(Op::CloneBoard),
        1 => (0u8..64, 1u8..5, any::<bool>()).prop_map(|(s, p, w)| Op::Edit(s, p, w)),
    ]
    .boxed()
}

fn is_special(pos: &Pos, m: &Mv) -> bool {
    if m.kind != Kind::Std {
        return true;
    }
    let home = |s: u8| matches!(s, A1 | H1 | A8 | H8 | E1 | E8);
    (pos.rights != 0 && (home(m.from) || home(m.to)))
        || (pos.sq[m.from as usize].map(|x| x.0) == Some(P::Pawn) && (m.to as i8 - m.from as i8).abs() == 16)
        || pos.ep.is_some()
}

pub fn choose(pos: &Pos, legal: &[Mv], op: &Op) -> Option<Mv> {
    if legal.is_empty() {
        return None;
    }
    let quiet = |m: &&Mv| m.cap.is_none() && pos.sq[m.from as usize].map(|x| x.0) != Some(P::Pawn);
    let (sel, subset): (u16, Vec<Mv>) = match op {
        Op::Move(s) => (*s, vec![]),
        Op::Quiet(s) => (*s, legal.iter().filter(quiet).cloned().collect()),
        Op::Noisy(s) => (*s, legal.iter().filter(|m| !quiet(m)).cloned().collect()),
        Op::Special(s) => (*s, legal.iter().filter(|m| is_special(pos, m)).cloned().collect()),
        _ => return None,
    };
    let pool: &[Mv] = if subset.is_empty() { legal } else { &subset };
    Some(pool[(sel as usize * pool.len()) >> 16])
}

/// Representation invariants over public accessors (C12).
pub fn check_invariants(b: &Board) -> Result<(), String> {
    use chess::board::color::Color;
    let s = snapshot(b);
    // pairwise disjoint piece boards
    let mut seen = 0u64;
    for ci in 0..2 {
        let mut union = 0u64;
        for pi in 0..6 {
            let x = s.piece_bb[ci][pi];
            if x & seen != 0 {
                return Err(format!("two pieces on one square (bitboards overlap at {:#x})", x & seen));
            }
            seen |= x;
            union |= x;
        }
        if union != s.occ[ci] {
            return Err(format!(
                "colour occupancy {:#x} != union of its piece boards {:#x}",
                s.occ[ci], union
            ));
        }
    }
    if s.occ_all != s.occ[0] | s.occ[1] {
        return Err("whole-board occupancy != union of colours".into());
    }
    for sq in 0..64usize {
        let mut from_bb = None;
        for ci in 0..2 {
            for pi in 0..6 {
                if s.piece_bb[ci][pi] >> sq & 1 == 1 {
                    from_bb = Some((ALL_P[pi], if ci == 0 { Side::White } else { Side::Black }));
                }
            }
        }
        if from_bb != s.squares[sq] {
            return Err(format!(
                "get({}) = {:?} but bitboards say {:?}",
                sq_name(sq as u8),
                s.squares[sq],
                from_bb
            ));
        }
    }
    for (ci, c) in [Side::White, Side::Black].iter().enumerate() {
        if s.piece_bb[ci][5].count_ones() != 1 {
            return Err(format!("{:?} has {} kings", c, s.piece_bb[ci][5].count_ones()));
        }
        if s.piece_bb[ci][0] & 0xFF000000000000FF != 0 {
            return Err(format!("{:?} pawn on first/eighth rank", c));
        }
    }
    let r = rights_from_engine(s.rights);
    for (bit, k, rk, c) in [
        (WK, E1, H1, Side::White),
        (WQ, E1, A1, Side::White),
        (BK, E8, H8, Side::Black),
        (BQ, E8, A8, Side::Black),
    ] {
        if r & bit != 0
            && (s.squares[k as usize] != Some((P::King, c)) || s.squares[rk as usize] != Some((P::Rook, c)))
        {
            return Err(format!(
                "castling right {:04b} held without king/rook at home",
                bit
            ));
        }
    }
    if s.ep != 0 {
        if s.ep.count_ones() != 1 {
            return Err("en-passant target is not a single square".into());
        }
        let t = s.ep.trailing_zeros() as u8;
        let rank = rank_of(t);
        let (front, behind, pawn_side) = match rank {
            2 => (t + 8, t - 8, Side::White),
            5 => (t - 8, t + 8, Side::Black),
            _ => return Err(format!("en-passant target {} not on rank 3/6", sq_name(t))),
        };
        if s.squares[t as usize].is_some() {
            return Err("en-passant target square occupied".into());
        }
        if s.squares[front as usize] != Some((P::Pawn, pawn_side)) {
            return Err(format!(
                "no just-advanced pawn in front of en-passant target {}",
                sq_name(t)
            ));
        }
        if s.squares[behind as usize].is_some() {
            return Err(format!("square behind en-passant target {} not empty", sq_name(t)));
        }
    }
    let _ = Color::White;
    Ok(())
}

pub struct Interp {
    pub board: Board,
    pub cur: Pos,
    pub stack: Vec<(Pos, ChessMove, Option<Snapshot>, u8)>,
    pub gen: Option<MoveGenerator>,
    pub which: Which,
    pub rights_floor: u8,
    // feature flags observed, for labels
    pub saw: Vec<&'static str>,
    pub max_depth: usize,
    pub max_quiet_stretch: u32,
    pub pawn_move_inside_stretch: bool,
}

fn fail(msg: String, pos: &Pos, extra: serde_json::Value) -> Failure {
    Failure::new(msg).with(json!({"position": pos.fen(), "extra": extra}))
}

impl Interp {
    pub fn new(seed: &Pos, which: Which) -> Interp {
        let mut cur = seed.clone();
        cur.ply = 0;
        let mut board = to_board(&cur);
        if which.register {
            board.count_current_position();
        }
        Interp {
            board,
            cur,
            stack: Vec::new(),
            gen: None,
            which,
            rights_floor: 0,
            saw: Vec::new(),
            max_depth: 0,
            max_quiet_stretch: 0,
            pawn_move_inside_stretch: false,
        }
    }

    fn gen(&mut self) -> &mut MoveGenerator {
        if self.gen.is_none() {
            self.gen = Some(MoveGenerator::new());
        }
        self.gen.as_mut().unwrap()
    }

    fn note(&mut self, l: &'static str) {
        if !self.saw.contains(&l) {
            self.saw.push(l);
        }
    }

    fn check_node(&mut self, what: &str) -> TestResult {
        let w = self.which;
        if w.key {
            let scratch = to_board(&self.cur).current_position_hash();
            let got = self.board.current_position_hash();
            if got != scratch {
                return Err(fail(
                    format!(
                        "{}: key {:#018x} differs from the key {:#018x} of the same position built from scratch",
                        what, got, scratch
                    ),
                    &self.cur,
                    json!({"depth": self.stack.len()}),
                ));
            }
        }
        if w.invariants {
            if let Err(e) = check_invariants(&self.board) {
                return Err(fail(format!("{}: {}", what, e), &self.cur, json!({})));
            }
            let r = rights_from_engine(self.board.peek_castle_rights());
            if let Some((prev, ..)) = self.stack.last() {
                if r & !prev.rights != 0 {
                    return Err(fail(
                        format!("{}: castling rights gained a bit ({:04b} -> {:04b})", what, prev.rights, r),
                        &self.cur,
                        json!({}),
                    ));
                }
            }
        }
        if w.clocks {
            let h = self.board.halfmove_clock() as u64;
            let f = self.board.fullmove_clock() as u64;
            if h != self.cur.half as u64 {
                return Err(fail(
                    format!("{}: half-move clock {} but {} plies since last capture/pawn move", what, h, self.cur.half),
                    &self.cur,
                    json!({"ply": self.cur.ply}),
                ));
            }
            if f != 1 + self.cur.ply as u64 {
                return Err(fail(
                    format!("{}: move counter {} after {} moves (expected {})", what, f, self.cur.ply, 1 + self.cur.ply),
                    &self.cur,
                    json!({"ply": self.cur.ply}),
                ));
            }
        }
        if w.draw {
            let legal = self.cur.legal_moves();
            if !legal.is_empty() {
                let turn = to_color(self.cur.side);
                self.board.set_turn(turn);
                let mut b2 = self.board.clone();
                let g = self.gen();
                let ending = chess::evaluate::game_ending(&mut b2, g, turn);
                let is_draw = matches!(ending, Some(chess::evaluate::GameEnding::Draw));
                let want = self.cur.half >= 100;
                if is_draw != want {
                    return Err(fail(
                        format!(
                            "{}: game_ending = {:?} with half-move clock {} (draw expected: {})",
                            what, ending, self.cur.half, want
                        ),
                        &self.cur,
                        json!({"ply": self.cur.ply}),
                    ));
                }
                if self.cur.half >= 100 {
                    self.note("clock>=100");
                } else if self.cur.half >= 50 {
                    self.note("clock 50..99");
                }
            }
        }
        Ok(())
    }

    pub fn do_move(&mut self, m: &Mv) -> TestResult {
        let w = self.which;
        let em = if w.engine_moves {
            let side = to_color(self.cur.side);
            let mut b2 = self.board.clone();
            let list = self.gen().generate_moves(&mut b2, side);
            match list.iter().find(|x| mv_of(x) == *m) {
                Some(x) => x.clone(),
                None => chess_move_of(m),
            }
        } else {
            chess_move_of(m)
        };
        let before = if w.undo { Some(snapshot(&self.board)) } else { None };
        // repetition bookkeeping is only observable through what a registration reports:
        // register + unregister the current position (net effect none) and remember the count
        let count_before = if w.undo && w.register {
            let c = self.board.count_current_position();
            self.board.uncount_current_position();
            Some(c)
        } else {
            None
        };
        let turn_before = self.board.turn();
        if let Err(e) = em.apply(&mut self.board) {
            return Err(fail(
                format!("apply({}) failed for a legal move: {:?}", mv_text(m), e),
                &self.cur,
                json!({}),
            ));
        }
        let next = self.cur.make(m);
        if w.successor {
            if self.board.turn() != turn_before {
                return Err(fail(format!("apply({}) changed the turn", mv_text(m)), &self.cur, json!({})));
            }
            let got = from_board(&self.board);
            for s in 0..64 {
                if got.sq[s] != next.sq[s] {
                    return Err(fail(
                        format!(
                            "after {}: square {} holds {:?}, rules say {:?}",
                            mv_text(m),
                            sq_name(s as u8),
                            got.sq[s],
                            next.sq[s]
                        ),
                        &self.cur,
                        json!({"move": mv_text(m)}),
                    ));
                }
            }
            if got.rights != next.rights {
                return Err(fail(
                    format!("after {}: rights {:04b}, rules say {:04b} (KkQq bits)", mv_text(m), got.rights, next.rights),
                    &self.cur,
                    json!({"move": mv_text(m)}),
                ));
            }
            if got.ep != next.ep {
                return Err(fail(
                    format!(
                        "after {}: en-passant target {:?}, rules say {:?}",
                        mv_text(m),
                        got.ep.map(sq_name),
                        next.ep.map(sq_name)
                    ),
                    &self.cur,
                    json!({"move": mv_text(m)}),
                ));
            }
        }
        // feature labels
        match m.kind {
            Kind::Castle => self.note("castle"),
            Kind::Ep => self.note("en-passant"),
            Kind::Promo => self.note(if m.cap.is_some() { "promotion-capture" } else { "promotion" }),
            Kind::Std => {}
        }
        if m.cap == Some(P::Rook) && matches!(m.to, A1 | H1 | A8 | H8) && self.cur.rights != next.rights {
            self.note("home-rook-captured-with-right");
        }
        if m.kind == Kind::Std && self.cur.rights != next.rights && m.cap != Some(P::Rook) {
            self.note("rights-lost-by-moving");
        }
        if next.ep.is_some() {
            self.note("double-step");
        }
        if self.cur.ep.is_some() && m.kind != Kind::Ep {
            self.note("ep-target-expired");
        }
        if m.cap.is_some() {
            self.note("capture");
        }
        if next.half > self.max_quiet_stretch {
            self.max_quiet_stretch = next.half;
        }
        if self.cur.half >= 10 && next.half == 0 && m.cap.is_none() {
            self.pawn_move_inside_stretch = true;
        }
        let mut reg = 0u8;
        self.board.toggle_turn();
        if w.register {
            reg = self.board.count_current_position();
        }
        let prev = std::mem::replace(&mut self.cur, next);
        let _ = count_before;
        self.stack.push((prev, em, before, count_before.unwrap_or(reg.wrapping_mul(0))));
        self.max_depth = self.max_depth.max(self.stack.len());
        if self.cur.ply == 255 || self.cur.ply == 256 {
            self.note("ply-255/256");
        }
        self.check_node(&format!("after {}", mv_text(m)))
    }

    pub fn do_undo(&mut self) -> TestResult {
        let (prev, em, before, count_before) = match self.stack.pop() {
            Some(x) => x,
            None => return Ok(()),
        };
        let m = mv_of(&em);
        if self.which.register {
            self.board.uncount_current_position();
        }
        self.board.toggle_turn();
        if let Err(e) = em.undo(&mut self.board) {
            return Err(fail(format!("undo({}) failed: {:?}", mv_text(&m), e), &prev, json!({})));
        }
        self.cur = prev;
        self.note("undo");
        if before.is_some() && self.which.register {
            let c = self.board.count_current_position();
            self.board.uncount_current_position();
            if c != count_before {
                return Err(fail(
                    format!(
                        "undo({}) did not restore the repetition bookkeeping: registering the position reported {} before the move and {} after the undo",
                        mv_text(&m),
                        count_before,
                        c
                    ),
                    &self.cur,
                    json!({"move": mv_text(&m), "depth": self.stack.len()}),
                ));
            }
        }
        if let Some(before) = before {
            let after = snapshot(&self.board);
            if let Some(d) = snapshot_diff(&before, &after) {
                return Err(fail(
                    format!("undo({}) did not restore the board: {}", mv_text(&m), d),
                    &self.cur,
                    json!({"move": mv_text(&m), "depth": self.stack.len()}),
                ));
            }
        }
        self.check_node(&format!("after undo of {}", mv_text(&m)))
    }

    /// Put a piece directly on the board in the middle of a history (only when nothing but the
    /// key is being judged). The edit is mirrored in the current and in every stacked position.
    pub fn do_edit(&mut self, sq: u8, pi: u8, white: bool) -> TestResult {
        let w = self.which;
        if !w.key || w.undo || w.successor || w.clocks || w.invariants || w.register {
            return Ok(());
        }
        let piece = ALL_P[(pi % 5) as usize];
        if piece == P::Pawn && (rank_of(sq) == 0 || rank_of(sq) == 7) {
            return Ok(());
        }
        let side = if white { Side::White } else { Side::Black };
        let touched = |m: &Mv, s: u8| -> bool {
            if m.from == s || m.to == s {
                return true;
            }
            match m.kind {
                Kind::Ep => sq_of(file_of(m.to), rank_of(m.from)) == Some(s),
                Kind::Castle => {
                    let (rf, rt) = if m.to > m.from { (m.from + 3, m.from + 1) } else { (m.from - 4, m.from - 1) };
                    s == rf || s == rt
                }
                _ => false,
            }
        };
        let mut trial = self.cur.clone();
        if trial.sq[sq as usize].is_some() || trial.ep == Some(sq) {
            return Ok(());
        }
        trial.sq[sq as usize] = Some((piece, side));
        if trial.consistent().is_err() {
            return Ok(());
        }
        for (prev, em, _, _) in &self.stack {
            let m = mv_of(em);
            if prev.sq[sq as usize].is_some() || prev.ep == Some(sq) || touched(&m, sq) {
                return Ok(());
            }
            let mut t = prev.clone();
            t.sq[sq as usize] = Some((piece, side));
            if t.consistent().is_err() {
                return Ok(());
            }
            // the stacked move must still be legal with the extra piece on the board
            if !t.legal_moves().contains(&m) {
                return Ok(());
            }
        }
        if self.board.put(bb(sq), to_piece(piece), to_color(side)).is_err() {
            return Err(fail(format!("put on the empty square {} was refused", sq_name(sq)), &self.cur, json!({})));
        }
        self.cur = trial;
        for (prev, ..) in self.stack.iter_mut() {
            prev.sq[sq as usize] = Some((piece, side));
        }
        self.note("direct-edit-inside-history");
        self.check_node(&format!("after putting a piece on {} in the middle of the history", sq_name(sq)))
    }

    pub fn do_probe(&mut self, k: u8) -> TestResult {
        if !self.which.probes {
            return Ok(());
        }
        let side = to_color(self.cur.side);
        let before = snapshot(&self.board);
        let name;
        let n_legal = self.cur.legal_moves().len();
        {
            let mut board = std::mem::replace(&mut self.board, Board::new());
            let g = self.gen();
            name = match k % 6 {
                0 => {
                    g.generate_moves(&mut board, side);
                    "generate_moves"
                }
                1 => {
                    g.generate_moves_and_lazily_update_chess_move_effects(&mut board, side);
                    "generate_moves_and_lazily_update_chess_move_effects"
                }
                2 => {
                    chess::chess_move::algebraic_notation::enumerate_candidate_moves_with_algebraic_notation(
                        &mut board, side, g,
                    );
                    "enumerate_candidate_moves_with_algebraic_notation"
                }
                3 => {
                    let _ = chess::evaluate::game_ending(&mut board, g, side);
                    "game_ending"
                }
                4 => {
                    if n_legal <= 40 {
                        g.count_positions(1, &mut board, side);
                    }
                    "count_positions"
                }
                _ => {
                    if n_legal <= 12 {
                        let mut ctx = chess::alpha_beta_searcher::SearchContext::new(2);
                        let _ = chess::alpha_beta_searcher::alpha_beta_search(&mut ctx, &mut board, g);
                    }
                    "alpha_beta_search"
                }
            };
            self.board = board;
        }
        self.note("probe");
        let after = snapshot(&self.board);
        if let Some(d) = snapshot_diff(&before, &after) {
            return Err(fail(
                format!("{} changed the caller's board: {}", name, d),
                &self.cur,
                json!({"routine": name}),
            ));
        }
        Ok(())
    }

    pub fn step(&mut self, op: &Op) -> TestResult {
        match op {
            Op::Undo => self.do_undo(),
            Op::Unwind(k) => {
                for _ in 0..*k {
                    if self.stack.is_empty() {
                        break;
                    }
                    self.do_undo()?;
                }
                Ok(())
            }
            Op::Probe(k) => self.do_probe(*k),
            Op::CloneBoard => {
                self.board = self.board.clone();
                self.note("continued-on-a-clone");
                Ok(())
            }
            Op::Edit(sq, pi, white) => self.do_edit(*sq, *pi, *white),
            _ => {
                let legal = self.cur.legal_moves();
                // stay inside a legal game: the 75-move rule ends it at 150
                let forced;
                let op = if self.cur.half >= 149 {
                    forced = Op::Noisy(match op {
                        Op::Move(s) | Op::Quiet(s) | Op::Noisy(s) | Op::Special(s) => *s,
                        _ => 0,
                    });
                    &forced
                } else {
                    op
                };
                match choose(&self.cur, &legal, op) {
                    Some(m) => {
                        if self.cur.half >= 149
                            && m.cap.is_none()
                            && self.cur.sq[m.from as usize].map(|x| x.0) != Some(P::Pawn)
                        {
                            return Ok(()); // cannot reset the clock: stop making moves
                        }
                        self.do_move(&m)
                    }
                    None => Ok(()),
                }
            }
        }
    }

    pub fn unwind_all(&mut self) -> TestResult {
        while !self.stack.is_empty() {
            self.do_undo()?;
        }
        Ok(())
    }
}

/// Run a whole history. Returns the interpreter for label extraction.
pub fn run_history(h: &History, which: Which, st: &mut Stats) -> Result<Interp, Failure> {
    let seed = Pos::from_fen(&h.fen).map_err(Failure::new)?;
    let mut it = Interp::new(&seed, which);
    it.check_node("at the seed position")?;
    for op in &h.ops {
        it.step(op)?;
    }
    it.unwind_all()?;
    st.count("plies_made_and_undone", it.max_depth as u64);
    Ok(it)
}

/// Moves made, as text, for samples and replay files.
pub fn describe(h: &History) -> serde_json::Value {
    let seed = match Pos::from_fen(&h.fen) {
        Ok(p) => p,
        Err(_) => return json!({"fen": h.fen}),
    };
    let mut cur = seed.clone();
    let mut stack: Vec<Pos> = Vec::new();
    let mut text = Vec::new();
    for op in &h.ops {
        match op {
            Op::Undo => {
                if let Some(p) = stack.pop() {
                    cur = p;
                    text.push("undo".to_string());
                }
            }
            Op::Unwind(k) => {
                let mut n = 0;
                for _ in 0..*k {
                    if let Some(p) = stack.pop() {
                        cur = p;
                        n += 1;
                    }
                }
                if n > 0 {
                    text.push(format!("undo*{}", n));
                }
            }
            Op::Probe(k) => text.push(format!("probe{}", k % 6)),
            Op::CloneBoard => text.push("clone".into()),
            Op::Edit(s, p, w) => text.push(format!("put{}{}@{}", if *w { "W" } else { "B" }, p, sq_name(*s))),
            _ => {
                let legal = cur.legal_moves();
                if let Some(m) = choose(&cur, &legal, op) {
                    text.push(crate::oracle::notation::uci(&m));
                    stack.push(cur.clone());
                    cur = cur.make(&m);
                }
            }
        }
        if text.len() > 60 {
            text.push("...".into());
            break;
        }
    }
    json!({"seed": h.fen, "ops": text.join(" ")})
}
