#![no_main]
// Coverage-guided target: bytes -> (seed position, move/undo history) -> lock-step interpreter
// with the oracle selected by VERIF_FUZZ_PROPERTY (C03, C04, C05, C12, C16; default: all).
use libfuzzer_sys::fuzz_target;

fuzz_target!(|data: &[u8]| {
    chess_verif::fuzz::run(data);
});
