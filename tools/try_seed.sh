#!/bin/bash
# usage: tools_try_seed.sh <patch.diff> <ID> [<ID>...]   -- apply a seeded change to /repo, run quick checks, undo
export VERIF_OUT=/tmp/mutant_out  # keep committed evidence intact
patch=$1; shift
git -C /repo apply "$patch" || { echo "patch does not apply"; exit 3; }
for id in "$@"; do
  out=$(cd /verif && timeout 3000 ./check $id ${TIER:-quick} 2>&1); rc=$?
  echo "== $id rc=$rc"; echo "$out" | grep -E "VIOLATION|INCONCLUSIVE|held on|^C[0-9]+/" | head -5
done
git -C /repo checkout -- . ; git -C /repo status --short | head
