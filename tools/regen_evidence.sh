#!/bin/bash
# Re-run every quick check on the (clean) working tree so that the committed evidence describes a
# run of the registered command. Refuses to run if /repo has uncommitted changes.
if [ -n "$(git -C /repo status --porcelain)" ]; then echo "/repo is not clean"; exit 1; fi
cd /verif || exit 1
./check --build || exit 2
fail=0
for id in C01 C02 C03 C04 C05 C06 C07 C08 C09 C10 C11 C12 C13 C14 C15 C16 C17 C18 C19; do
  t0=$(date +%s); out=$(./check $id quick 2>&1); rc=$?; t1=$(date +%s)
  echo "$id rc=$rc $((t1-t0))s $(echo "$out" | tail -1 | cut -c1-120)"
  [ $rc -ne 0 ] && fail=1
done
exit $fail
