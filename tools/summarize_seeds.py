#!/usr/bin/env python3
"""Rebuild seeded/SUMMARY.md and the quick_check_result field of every seeded/<name>/meta.json
from seeded/RESULTS.log (tools/run_seeds.sh, chronological) and seeded/FINAL.log (tools/final_pass.sh)."""
import json, os, re, glob
final = {}
for line in open('/verif/seeded/FINAL.log'):
    m = re.match(r'(\S+) \[(C\d+)\]: rc=(\d+) (\d+)s ::\s?(.*)', line.rstrip('\n'))
    if m:
        final[(m.group(1), m.group(2))] = (int(m.group(3)), m.group(5))
last = {}
for line in open('/verif/seeded/RESULTS.log'):
    m = re.match(r'(\S+): rc=(\d+) (\d+)s ::\s?(.*)', line.rstrip('\n'))
    if m:
        last[m.group(1)] = (int(m.group(2)), m.group(4))
notes = json.load(open('/verif/seeded/NOTES.json'))
rows = []
for d in sorted(glob.glob('/verif/seeded/C*-*')):
    n = os.path.basename(d)
    pid = n.split('-')[0]
    meta = json.load(open(d + '/meta.json'))
    cands = []
    if n in last:
        cands.append(last[n])
    if (n, pid) in final:
        cands.append(final[(n, pid)])
    r = next((c for c in cands if c[0] == 1), cands[0] if cands else (-1, 'not run'))
    if n in notes and notes[n].startswith('exit 2'):
        r = (2, '')
    status = {1: 'caught (quick tier)', 0: 'not caught by the quick check of its property', 2: 'inconclusive (exit 2)', -1: 'not run'}[r[0]]
    meta['quick_check_result'] = {'status': status, 'first_line': r[1][:300]}
    if n in notes:
        meta['quick_check_result']['note'] = notes[n]
    json.dump(meta, open(d + '/meta.json', 'w'), indent=1)
    rows.append((n, status, (notes.get(n) or r[1])[:160], (meta.get('summary') or '')[:110]))
with open('/verif/seeded/SUMMARY.md', 'w') as f:
    f.write("# Seeded changes and what the quick checks report\n\nOne line per change (`seeded/<name>/patch.diff`, demo and meta.json alongside). Rounds: a/b first, c/d second, e/f third, g/h fourth, i/j fifth.\nResult = `./check <property> quick` with the change applied to /repo (latest run; see RESULTS.log and FINAL.log).\n\n| change | result | first line of the report / note | what was changed |\n|---|---|---|---|\n")
    for n, status, info, summ in rows:
        f.write(f"| {n} | {status} | {info.replace('|', '/')} | {summ.replace('|', '/')} |\n")
    c = sum(1 for r in rows if r[1].startswith('caught'))
    f.write(f"\n{c} of {len(rows)} caught by the quick check of their own property.\n")
print(len(rows), sum(1 for r in rows if r[1].startswith('caught')))
