#!/bin/bash
# usage: confirm_seed.sh <ID> [2]  -- re-confirm both seeded changes of /tmp/seed_<ID> (round 2: /tmp/seed2_<ID>,
# stored as <ID>-c / <ID>-d) and copy them to /verif/seeded
id=$1; round=${2:-1}
if [ "$round" = "2" ]; then wt=/tmp/seed2_$id; elif [ "$round" = "3" ]; then wt=/tmp/seed3_$id; elif [ "$round" = "4" ]; then wt=/tmp/seed4_$id; elif [ "$round" = "5" ]; then wt=/tmp/seed5_$id; else wt=/tmp/seed_$id; fi
cd $wt || exit 1
export CARGO_NET_OFFLINE=true
git checkout -- . 2>/dev/null
for x in a b; do
  [ -f _seed/patch_$x.diff ] || { echo "$id-$x: no patch"; continue; }
  mkdir -p tests; cp _seed/seed_demo_$x.rs tests/seed_demo_$x.rs 2>/dev/null
  res=""
  # without the change: demo passes
  if cargo test --offline --test seed_demo_$x >/tmp/confirm_${id}_$x.pass.log 2>&1; then res="$res demo-passes-without"; else res="$res DEMO-FAILS-WITHOUT"; fi
  git apply _seed/patch_$x.diff || { echo "$id-$x: PATCH DOES NOT APPLY"; continue; }
  # the build script keeps generated tables that already exist: drop them so a change under precompile/ takes effect
  find target -path '*/build/chess-*/out/*.rs' -delete 2>/dev/null
  if cargo test --offline --lib >/tmp/confirm_${id}_$x.lib.log 2>&1 && grep -q "90 passed; 0 failed" /tmp/confirm_${id}_$x.lib.log; then res="$res 90-tests-pass-with"; else res="$res UNIT-TESTS-FAIL-WITH"; fi
  if cargo test --offline --test seed_demo_$x >/tmp/confirm_${id}_$x.fail.log 2>&1; then res="$res DEMO-PASSES-WITH"; else res="$res demo-fails-with"; fi
  git checkout -- .
  find target -path '*/build/chess-*/out/*.rs' -delete 2>/dev/null
  echo "$id-$x(round $round):$res"
  y=$x; if [ "$round" = "2" ]; then if [ $x = a ]; then y=c; else y=d; fi; fi
  if [ "$round" = "3" ]; then if [ $x = a ]; then y=e; else y=f; fi; fi
  if [ "$round" = "4" ]; then if [ $x = a ]; then y=g; else y=h; fi; fi
  if [ "$round" = "5" ]; then if [ $x = a ]; then y=i; else y=j; fi; fi
  d=/verif/seeded/$id-$y; mkdir -p $d
  cp _seed/patch_$x.diff $d/patch.diff; cp _seed/seed_demo_$x.rs $d/seed_demo.rs
  python3 - "$id" "$x" "$res" "$wt" "$y" <<'PY'
import json,sys
id,x,res,wt,y=sys.argv[1:6]
m=json.load(open(f"{wt}/_seed/meta_{x}.json"))
out={"property":id,"summary":m.get("summary"),"needs":m.get("needs"),"files":m.get("files"),
     "confirmed_by_me":res.split(),"confirm_commands":["cargo test --offline --test seed_demo (pristine)","git apply patch.diff","cargo test --offline --lib","cargo test --offline --test seed_demo"],
     "agent_ran":m.get("ran")}
json.dump(out,open(f"/verif/seeded/{id}-{y}/meta.json","w"),indent=1)
PY
done
