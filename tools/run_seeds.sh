#!/bin/bash
# usage: run_seeds.sh <name> [<name>...]   (names of directories under /verif/seeded, e.g. C01-a)
# Applies each seeded change to /repo, runs the quick check of its property, undoes it. Results: /verif/seeded/RESULTS.log
export VERIF_OUT=/tmp/mutant_out  # keep committed evidence intact
for n in "$@"; do
  d=/verif/seeded/$n; id=${n%%-*}
  [ -f $d/patch.diff ] || continue
  if ! git -C /repo apply $d/patch.diff; then echo "$n: PATCH DOES NOT APPLY" | tee -a /verif/seeded/RESULTS.log; continue; fi
  t0=$(date +%s)
  out=$(cd /verif && timeout 3000 ./check $id ${TIER:-quick} 2>&1); rc=$?
  t1=$(date +%s)
  git -C /repo reset -q --hard HEAD
  line=$(echo "$out" | grep -E "^C[0-9]+/" | head -1 | cut -c1-260)
  echo "$n: rc=$rc $((t1-t0))s :: $line" | tee -a /verif/seeded/RESULTS.log
done
