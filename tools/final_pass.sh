#!/bin/bash
# Run the quick check of its property against every seeded change and every fix-revert; write seeded/FINAL.log
export VERIF_OUT=/tmp/mutant_out
out=/verif/seeded/FINAL.log; : > $out
if [ -n "$(git -C /repo status --porcelain)" ]; then echo "/repo is not clean"; exit 1; fi
declare -A REV=( [a11d5a7]="C05 C02 C10 C06" [9be5bc4]="C07" [21a8ac8]="C08 C09" [898dedd]="C13 C14" [2a3b4e8]="C14" [e841877]="C15" [534f659]="C15" [2831ae5]="C16" [ddd875b]="C16" [2a64797]="C16 C04" [9d50231]="C17" [5571eca]="C17" )
run() { # name patch id
  git -C /repo apply $2 || { echo "$1 [$3]: PATCH DOES NOT APPLY" >> $out; return; }
  t0=$(date +%s); o=$(cd /verif && timeout 3000 ./check $3 quick 2>&1); rc=$?; t1=$(date +%s)
  git -C /repo reset -q --hard HEAD
  echo "$1 [$3]: rc=$rc $((t1-t0))s :: $(echo "$o" | grep -E "^C[0-9]+/|^fuzz/" | head -1 | cut -c1-200)" >> $out
}
for c in "${!REV[@]}"; do for id in ${REV[$c]}; do run "fix-revert-$c" /verif/seeded/fix-reverts/$c.diff $id; done; done
for d in /verif/seeded/C*-*; do n=$(basename $d); run $n $d/patch.diff ${n%%-*}; done
grep -c "rc=1" $out; grep -v "rc=1" $out
