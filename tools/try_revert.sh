#!/bin/bash
# usage: try_revert.sh <fix-commit> <ID> [<ID>...]  -- temporarily undo one fix: commit in /repo's working tree
# (patches that apply to the current HEAD are kept in seeded/fix-reverts), run quick checks, restore
c=$1; shift
exec /verif/tools/try_seed.sh /verif/seeded/fix-reverts/$c.diff "$@"
